"""C24  Median filter and pillar discretization match their definitions.

Contracts (all proved on the REAL functions; array shapes and values symbolic unless listed):

  advanced_padding(arr, cfg)            == pad_spec(arr, cfg)   (pointwise, generic index)
        pad_spec: index-wise definition of "the configured padding": constant faces hold their value,
        edge faces repeat the nearest cell; where halos of several axes meet, the LATER axis decides
        (the paddings are applied face by face in the order x-,x+,y-,y+,z-,z+).
  binary_median_filter(arr, (kx,ky,kz), cfg)[p] == [ 2 * #ones in the kx*ky*kz box around p of
        pad_spec(arr,cfg) > kx*ky*kz ]     for odd kx,ky,kz, binary arr, pad widths >= (k-1)/2
        (modular: Lemma M for an ARBITRARY padded array + the padding contract; the call-site is
        checked by a stub; a few configurations are also proved end to end without the cut)
  BinaryMedianFilterModule.__call__     == num_repeats-fold composition, handed the configured kernel/padding
  compute_allowed_indices(L, range(M), [bg], single)  as a SET == { columns with background only as a
        top suffix (and at most one distinct non-background index if single) }     [concrete, enumerated]
  nearest_index(values, allowed_values, axis, allowed_indices, metric)[i,j] minimises the configured
        distance between column (i,j) of `values` and allowed_values[allowed_indices[r]] over all rows r
  PillarDiscretization.__call__         == allowed_indices[nearest_index(...)] laid out along `axis`
        (nearest_index stubbed by its contract, call-site preconditions checked)
"""

from __future__ import annotations

import itertools
import random
from fractions import Fraction

import z3

from vc import array as A
from vc.array import SymArray
from vc.core import SymBool, SymNum, ctx, ite, zbool
from vc.harness import Task
from vc.obl import index_cases, prove_arrays_equal, sym_int, sym_real

ID = "C24"
LEVEL = "proof"
TECHNIQUE = "symbolic execution of the real advanced_padding / binary_median_filter / nearest_index / PillarDiscretization on arrays of symbolic shape and value against index-wise definitional specs; modular cut at the padded array and at nearest_index; finite option classes enumerated; z3"
BT_MOD = "fdtdx.objects.device.parameters.binary_transform"
DZ_MOD = "fdtdx.objects.device.parameters.discretization"
UT_MOD = "fdtdx.objects.device.parameters.utils"
DC_MOD = "fdtdx.objects.device.parameters.discrete"
MODULES = [BT_MOD, DZ_MOD, UT_MOD, DC_MOD, "fdtdx.core.misc", "fdtdx.core.jax.ste", "fdtdx.materials"]
FILES = [
    "src/fdtdx/objects/device/parameters/binary_transform.py",
    "src/fdtdx/objects/device/parameters/discretization.py",
    "src/fdtdx/objects/device/parameters/utils.py",
    "src/fdtdx/objects/device/parameters/discrete.py",
    "src/fdtdx/core/misc.py",
]
FUNCTIONS = [
    "fdtdx.core.misc.advanced_padding",
    "fdtdx.objects.device.parameters.binary_transform.binary_median_filter",
    "fdtdx.objects.device.parameters.discrete.BinaryMedianFilterModule.__call__",
    "fdtdx.objects.device.parameters.utils.compute_allowed_indices (+ both helpers)",
    "fdtdx.objects.device.parameters.utils.nearest_index (allowed_indices branch)",
    "fdtdx.objects.device.parameters.discretization.PillarDiscretization.init_module / __call__",
]
INLINED = ["fdtdx.core.jax.ste.straight_through_estimator", "fdtdx.core.misc.ensure_slice_tuple", "fdtdx.core.misc.get_background_material_name", "fdtdx.materials.compute_ordered_names / compute_allowed_permittivities (material ordering is C39's subject; used as given)"]
STUBS = [
    "advanced_padding inside binary_median_filter (Lemma M tasks): returns an arbitrary binary array of the padded shape and the slice of the original block; its own contract is proved in the padding/* tasks and the call site is checked",
    "binary_median_filter inside BinaryMedianFilterModule.__call__: recording stub returning fresh arrays",
    "nearest_index inside PillarDiscretization.__call__: returns an arbitrary row index per column in range; its contract is proved in the nearest/* tasks and the call site is checked",
]
ASSUMPTIONS = [
    "median: kernel sizes odd (enumerated set below), array values and constant pad values in {0,1}, every pad width >= (k-1)/2 on its axis (otherwise jax.scipy.signal.convolve zero-fills beyond the configured padding), padded extent >= kernel size",
    "median: padding modes 'constant' and 'edge' (the modes of the repository's own configurations); pad widths are concrete and enumerated: uniform 1, 2, 3, 10 and a mixed pattern; kernels (1,1,1),(3,1,1),(1,3,1),(1,1,3),(3,3,1),(3,3,3),(5,3,1),(1,5,5),(5,5,5) (thorough adds (7,7,7),(3,5,7))",
    "jax.scipy.signal.convolve(mode='same', method='direct') = textbook zero-filled convolution (vc/signal.py; cross-checked against real JAX inside this check); jnp.round = some integer within 1/2 (no tie rule assumed)",
    "pillars: isotropic materials; column heights L <= 4 (thorough 5) and M <= 3 materials (thorough 4) for the symbolic nearest_index proof (tables of at most 32 allowed columns; euclidean metric only for tables of at most 16), L <= 5 (thorough 6), M <= 4 for the allowed-column enumeration; every background index and both single_polymer_columns settings; axes 0,1,2; both distance metrics",
    "euclidean metric: sqrt is an uninterpreted strictly increasing function on non-negative reals",
]
MIN_OBLIGATIONS = {"quick": 3000, "thorough": 3000}
LEVEL_TEXT = "Deductive proof over all array shapes and binary values (median, padding) and over all real parameter values and allowed inverse permittivities (pillars) that the real functions equal their index-wise definitions; kernel sizes, pad widths/modes, column height, material count, axis and metric are finite classes enumerated as listed"
LEVEL_NOTE = "column height / material count / kernel size / pad width bounded as listed in ASSUMPTIONS; a seeded real-JAX run of the same functions against numpy oracles is attached as bounded evidence for the shim semantics"
BOUNDED_RULE = "real binary_median_filter / PillarDiscretization under real JAX on seeded random inputs against numpy oracles (supporting evidence for the shims; the property itself is proved symbolically)"


def _sqrt_axiom(args, term, apps):
    a = args[0]
    yield term >= 0
    for bargs, bterm in list(apps.values()):
        if bterm.get_id() == term.get_id():
            continue
        b = bargs[0]
        yield z3.Implies(a < b, term < bterm)
        yield z3.Implies(b < a, bterm < term)
        yield z3.Implies(a == b, term == bterm)


AXIOMS = {"sqrt": [_sqrt_axiom]}


def _imp(a, b):
    return A._vor(A._vnot(a), b)


# ---------------------------------------------------------------------------------------
# padding
# ---------------------------------------------------------------------------------------


def _expand6(x, nd=3):
    x = list(x)
    return x * (2 * nd) if len(x) == 1 else x


def pad_spec(arr, widths, modes, values):
    """index-wise definition of the configured padding (see module docstring)"""
    arr = A.asarray(arr)
    nd = arr.ndim
    widths, modes = _expand6(widths, nd), _expand6(modes, nd)
    values = [0] * (2 * nd) if values is None else _expand6(values, nd)
    shape = tuple(arr.shape[a] + widths[2 * a] + widths[2 * a + 1] for a in range(nd))

    def fn(idx):
        src = [A._wrap_idx(idx[a]) - widths[2 * a] for a in range(nd)]

        def rec(ax, fixed):
            if ax < 0:
                return arr.at_index(tuple(A._raw_index(fixed[a]) for a in range(nd)))
            j, n = src[ax], arr.shape[ax]
            res = rec(ax - 1, {**fixed, ax: j})
            if widths[2 * ax + 1]:
                hi = values[2 * ax + 1] if modes[2 * ax + 1] == "constant" else rec(ax - 1, {**fixed, ax: n - 1})
                res = ite(j >= n, hi, res)
            if widths[2 * ax]:
                lo = values[2 * ax] if modes[2 * ax] == "constant" else rec(ax - 1, {**fixed, ax: 0})
                res = ite(j < 0, lo, res)
            return res

        return rec(nd - 1, {})

    return SymArray(shape, fn, arr.kind)


def _sym_shape(inp, lo=1, names="xyz"):
    dims = []
    for n in names:
        d = sym_int("N" + n, lo=lo)
        inp.scalar("N" + n, d)
        dims.append(d)
    return tuple(dims)


class _BitBool(SymBool):
    """the boolean (x == 1) of an integer x in {0,1}; its numeric value is x itself (instead of
    ite(x == 1, 1, 0)), which keeps box sums linear integer terms"""

    def __init__(self, x):
        super().__init__((x == 1).z)
        self._x = x

    def _num(self):
        return self._x


def _binary_array(name, shape, inp, kind="real"):
    """arbitrary binary-valued array; elements are Int-sorted 0/1 terms x[idx].
    kind 'real' models a float array holding 0./1., kind 'bool' a boolean array (x[idx] == 1)."""
    X = A.fresh_array(name, shape, "int", fact=lambda v, idx: A._vand(v >= 0, v <= 1))
    inp.array(name, X, default=0)
    if kind == "int":
        return X
    if kind == "bool":
        return SymArray(shape, lambda idx: _BitBool(X.at_index(idx)), "bool")
    return SymArray(shape, lambda idx: X.at_index(idx), "real")


def _padding_task(modes, widths, sym_values):
    def body(c, inp):
        from fdtdx.core.misc import PaddingConfig, advanced_padding

        shape = _sym_shape(inp)
        arr = A.fresh_array("arr", shape, "real")
        inp.array("arr", arr)
        inp.note("cfg", {"modes": list(modes), "widths": list(widths)})
        if sym_values is None:
            vals = None
        else:
            vals = [sym_real(f"val{e}") for e in range(len(sym_values))]
            for e, v in enumerate(vals):
                inp.scalar(f"val{e}", v)
        cfg = PaddingConfig(widths=tuple(widths), modes=tuple(modes), values=None if vals is None else tuple(vals))
        c.cover("pre")
        out, sl = advanced_padding(arr, cfg)
        spec = pad_spec(arr, widths, modes, vals)
        prove_arrays_equal("advanced_padding/post:equals_index_wise_padding", out, spec)
        w6 = _expand6(widths)
        c.prove("advanced_padding/post:slice_rank", len(sl) == 3 and all(isinstance(s, slice) and s.step is None for s in sl))
        for a, s in enumerate(sl):
            c.prove(f"advanced_padding/post:slice_start[{a}]", A.v_eq(s.start, w6[2 * a]))
            c.prove(f"advanced_padding/post:slice_stop[{a}]", A.v_eq(s.stop, w6[2 * a] + shape[a]))
        prove_arrays_equal("advanced_padding/post:original_block_unchanged", A.asarray(out)[tuple(sl)], arr)

    return body


# ---------------------------------------------------------------------------------------
# median
# ---------------------------------------------------------------------------------------


def _majority_at(padded, p, w_lo, ks):
    """[2 * #ones in the box around p (original coordinates) > K] on the padded array"""
    K = ks[0] * ks[1] * ks[2]
    cnt = 0
    for off in itertools.product(*[range(-(k - 1) // 2, (k - 1) // 2 + 1) for k in ks]):
        q = tuple(A._raw_index(p[a] + w_lo[a] + off[a]) for a in range(3))
        cnt = cnt + A._bool_to_num(padded.at_index(q))
    return 2 * cnt > K


def _assume_fits(shape, widths, ks):
    """padded extent >= kernel size on every axis (JAX convolve would swap operands / raise otherwise)"""
    w6 = _expand6(widths)
    for a in range(3):
        ctx().assume((shape[a] + w6[2 * a] + w6[2 * a + 1] >= ks[a]))


def _is_one(v):
    if isinstance(v, (SymBool, bool)):
        return v
    return A.v_eq(v, 1)


def _is_zero(v):
    if isinstance(v, (SymBool, bool)):
        return A._vnot(v)
    return A.v_eq(v, 0)


def _median_lemma(ks, widths, kind):
    """Lemma M: for an ARBITRARY binary padded array (advanced_padding stubbed by its contract)"""

    def body(c, inp):
        import importlib

        from fdtdx.core.misc import PaddingConfig

        bt = importlib.import_module(BT_MOD)
        shape = _sym_shape(inp)
        _assume_fits(shape, widths, ks)
        w6 = _expand6(widths)
        arr = _binary_array("arr", shape, inp, kind)
        pshape = tuple(shape[a] + w6[2 * a] + w6[2 * a + 1] for a in range(3))
        padded = _binary_array("padded", pshape, inp, kind)
        cfg = PaddingConfig(widths=tuple(widths), modes=("edge",), values=None)
        inp.note("cfg", {"kernel": list(ks), "widths": list(widths), "kind": kind})
        calls = []

        def pad_stub(a, pc):
            calls.append((a, pc))
            return padded, tuple(slice(w6[2 * x], w6[2 * x] + shape[x]) for x in range(3))

        saved = bt.advanced_padding
        bt.advanced_padding = pad_stub
        try:
            c.cover("pre")
            out = A.asarray(bt.binary_median_filter(arr, tuple(ks), cfg))
        finally:
            bt.advanced_padding = saved
        c.prove("binary_median_filter/call:advanced_padding(arr, cfg)", len(calls) == 1 and calls[0][0] is arr and calls[0][1] is cfg)
        c.prove("binary_median_filter/post:shape", out.ndim == 3 and all(A._dim_same_syntactic(x, y) or A.dim_eq(x, y) for x, y in zip(out.shape, shape)))
        c.prove("binary_median_filter/post:dtype_kept", out.kind == arr.kind)
        for label, idx, hy in index_cases(shape):
            p = tuple(A._wrap_idx(i) for i in idx)
            maj = _majority_at(padded, p, [w6[0], w6[2], w6[4]], ks)
            v = out.at_index(idx)
            c.prove(f"binary_median_filter/post:majority_of_box[{label}]", A._vand(_imp(maj, _is_one(v)), _imp(A._vnot(maj), _is_zero(v))), extra_hyps=hy)

    return body


def _median_end_to_end(ks, widths, modes, values, kind):
    def body(c, inp):
        import importlib

        from fdtdx.core.misc import PaddingConfig

        bt = importlib.import_module(BT_MOD)
        shape = _sym_shape(inp)
        _assume_fits(shape, widths, ks)
        w6 = _expand6(widths)
        arr = _binary_array("arr", shape, inp, kind)
        cfg = PaddingConfig(widths=tuple(widths), modes=tuple(modes), values=None if values is None else tuple(values))
        inp.note("cfg", {"kernel": list(ks), "widths": list(widths), "modes": list(modes), "values": None if values is None else list(values), "kind": kind})
        c.cover("pre")
        out = A.asarray(bt.binary_median_filter(arr, tuple(ks), cfg))
        spec_padded = pad_spec(arr, widths, modes, values)
        for label, idx, hy in index_cases(shape):
            p = tuple(A._wrap_idx(i) for i in idx)
            maj = _majority_at(spec_padded, p, [w6[0], w6[2], w6[4]], ks)
            v = out.at_index(idx)
            c.prove(f"binary_median_filter/post:majority_under_configured_padding[{label}]", A._vand(_imp(maj, _is_one(v)), _imp(A._vnot(maj), _is_zero(v))), extra_hyps=hy)

    return body


def _median_module(repeats):
    def body(c, inp):
        import importlib

        from fdtdx.core.misc import PaddingConfig

        dc = importlib.import_module(DC_MOD)
        shape = _sym_shape(inp)
        P = _binary_array("P", shape, inp, "real")
        cfg = PaddingConfig(widths=(2,), modes=("edge",))
        mod = dc.BinaryMedianFilterModule(padding_cfg=cfg, kernel_sizes=(3, 5, 1), num_repeats=repeats)
        outs = [A.fresh_array(f"F{k}", shape, "real") for k in range(repeats)]
        calls = []

        def stub(arr_3d, kernel_sizes, padding_cfg):
            calls.append((arr_3d, kernel_sizes, padding_cfg))
            return outs[len(calls) - 1]

        saved = dc.binary_median_filter
        dc.binary_median_filter = stub
        try:
            res = mod({"p": P})
        finally:
            dc.binary_median_filter = saved
        c.prove("BinaryMedianFilterModule/call_count", len(calls) == repeats)
        for k, (a, ksz, pc) in enumerate(calls):
            c.prove(f"BinaryMedianFilterModule/call[{k}]:configured_kernel_and_padding", tuple(ksz) == (3, 5, 1) and pc is cfg)
            c.prove(f"BinaryMedianFilterModule/call[{k}]:input_is_previous_output", a is (P if k == 0 else outs[k - 1]))
        c.prove("BinaryMedianFilterModule/post:single_key", list(res.keys()) == ["p"])
        prove_arrays_equal("BinaryMedianFilterModule/post:value_is_last_filter_output", res["p"], outs[-1] if repeats else P)

    return body


# ---------------------------------------------------------------------------------------
# pillars
# ---------------------------------------------------------------------------------------


def allowed_columns_spec(L, M, bg, single):
    """columns over indices 0..M-1: background only as a top (high index) suffix; if `single`, at
    most one distinct non-background index"""
    out = set()
    for col in itertools.product(range(M), repeat=L):
        h = L
        while h > 0 and col[h - 1] == bg:
            h -= 1
        body = col[:h]
        if bg in body:
            continue
        if single and len(set(body)) > 1:
            continue
        out.add(col)
    return out


def _real_allowed(L, M, bg, single):
    """the REAL compute_allowed_indices under real jnp -> numpy int array (n, L)"""
    import importlib

    import jax
    import jax.numpy as rjnp
    import numpy as np

    ut = importlib.import_module(UT_MOD)
    saved = (ut.jnp, ut.jax)
    ut.jnp, ut.jax = rjnp, jax
    try:
        import contextlib
        import io

        with contextlib.redirect_stderr(io.StringIO()):
            res = ut.compute_allowed_indices(num_layers=L, indices=list(range(M)), fill_holes_with_index=[bg], single_polymer_columns=single)
    finally:
        ut.jnp, ut.jax = saved
    return np.asarray(res)


def _allowed_task(combos):
    def body(c, inp):
        import numpy as np

        for L, M, bg, single in combos:
            tag = f"L{L}M{M}bg{bg}{'single' if single else 'multi'}"
            got = _real_allowed(L, M, bg, single)
            c.prove(f"compute_allowed_indices/post:shape[{tag}]", got.ndim == 2 and got.shape[1] == L and got.shape[0] >= 1)
            rows = {tuple(int(x) for x in r) for r in got}
            spec = allowed_columns_spec(L, M, bg, single)
            c.prove(f"compute_allowed_indices/post:every_row_allowed[{tag}]", rows <= spec)
            c.prove(f"compute_allowed_indices/post:every_allowed_column_present[{tag}]", spec <= rows)

    return body


def _spec_distance(col, ref, metric):
    """col, ref: lists of L values.  The configured distance (monotone transform for euclidean)."""
    L = len(col)
    if metric == "euclidean" or L == 1:
        s = 0
        for a, b in zip(col, ref):
            s = s + (a - b) * (a - b)
        return s  # squared euclidean distance: same minimiser
    d = 0
    for j in range(L - 1):
        d = d + abs((col[j + 1] - col[j]) - (ref[j + 1] - ref[j]))
    d = d / (L - 1)
    ma = sum(col[1:], col[0]) / L
    mb = sum(ref[1:], ref[0]) / L
    return d + abs(ma - mb)


def _column(values, axis, ij, L):
    out = []
    for l in range(L):
        idx = list(ij)
        idx.insert(axis, l)
        out.append(values.at_index(tuple(A._raw_index(i) for i in idx)))
    return out


def _values_shape(inp, axis, L):
    dims = list(_sym_shape(inp, names="ab"))
    dims.insert(axis, L)
    return tuple(dims)


def _nearest_task(L, M, bg, single, axis, metric):
    def body(c, inp):
        import importlib

        ut = importlib.import_module(UT_MOD)
        allowed = _real_allowed(L, M, bg, single)
        n = allowed.shape[0]
        inp.note("cfg", {"L": L, "M": M, "bg": bg, "single": single, "axis": axis, "metric": metric, "allowed": allowed.tolist()})
        shape = _values_shape(inp, axis, L)
        values = A.fresh_array("values", shape, "real")
        inp.array("values", values)
        av = A.fresh_array("allowed_values", (M,), "real", fact=lambda v, idx: v > 0)
        inp.array("allowed_values", av, default=1.0)
        c.cover("pre")
        out = A.asarray(ut.nearest_index(values=values, allowed_values=av, axis=axis, distance_metric=metric, allowed_indices=A.asarray(allowed), return_distances=False))
        rest = tuple(d for k, d in enumerate(shape) if k != axis)
        c.prove("nearest_index/post:shape", out.ndim == 2 and all(A._dim_same_syntactic(x, y) for x, y in zip(out.shape, rest)))
        avl = [av.at_index((m,)) for m in range(M)]
        for label, idx, hy in index_cases(rest):
            k = out.at_index(idx)
            col = _column(values, axis, tuple(A._wrap_idx(i) for i in idx), L)
            D = [_spec_distance(col, [avl[int(m)] for m in allowed[r]], metric) for r in range(n)]
            c.prove(f"nearest_index/post:row_in_range[{label}]", A._vand(k >= 0, k < n), extra_hyps=hy)
            for s in range(n):
                for r in range(n):
                    if r != s:
                        c.prove(f"nearest_index/post:minimises_configured_distance[{label}](row {s} vs {r})", _imp(A.v_eq(k, s), D[s] <= D[r]), extra_hyps=hy)

    return body


def _materials(M):
    import fdtdx

    perms = [1.0, 2.0, 4.0, 8.0][:M]  # inverses exactly representable
    # insertion order deliberately not sorted
    names = ["m%d" % i for i in range(M)]
    order = list(range(M))[::-1]
    return {names[i]: fdtdx.Material(permittivity=perms[i]) for i in order}, names, perms


def _make_pillar_module(L, M, bg_name, single, axis, metric, shape):
    """REAL PillarDiscretization initialised by its real init_module (under real jnp)"""
    import importlib

    import jax
    import jax.numpy as rjnp
    import numpy as np

    dz = importlib.import_module(DZ_MOD)
    ut = importlib.import_module(UT_MOD)
    try:
        from loguru import logger

        logger.disable("fdtdx")
    except Exception:  # noqa: BLE001
        pass
    mats, names, perms = _materials(M)
    mod = dz.PillarDiscretization(axis=axis, single_polymer_columns=single, distance_metric=metric, background_material=bg_name)
    saved = (ut.jnp, ut.jax, dz.jnp, dz.jax)
    ut.jnp, ut.jax, dz.jnp, dz.jax = rjnp, jax, rjnp, jax
    try:
        import contextlib
        import io

        with contextlib.redirect_stderr(io.StringIO()):
            mod = mod.init_module(config=None, materials=mats, matrix_voxel_grid_shape=shape, single_voxel_size=(1.0, 1.0, 1.0), output_shape={"p": shape})
    finally:
        ut.jnp, ut.jax, dz.jnp, dz.jax = saved
    return mod, mats, names, perms


def _pillar_wrapper(L, M, bg, single, axis, metric):
    def body(c, inp):
        import importlib

        import numpy as np

        from fdtdx.materials import compute_ordered_materials

        dz = importlib.import_module(DZ_MOD)
        shape = _values_shape(inp, axis, L)
        mod, mats, names, perms = _make_pillar_module(L, M, None if bg is None else names_of(M)[bg], single, axis, metric, shape)
        bg_idx = 0 if bg is None else bg  # permittivities ascending with the index => lowest = index 0
        allowed = np.asarray(mod._allowed_indices)
        spec_rows = allowed_columns_spec(L, M, bg_idx, single)
        c.prove("PillarDiscretization.init_module/post:allowed_columns", {tuple(int(x) for x in r) for r in allowed} == spec_rows)
        n = allowed.shape[0]
        mod = mod.aset("_allowed_indices", A.asarray(allowed))
        inp.note("cfg", {"L": L, "M": M, "bg": bg, "single": single, "axis": axis, "metric": metric, "allowed": allowed.tolist()})
        P = A.fresh_array("P", shape, "real")
        inp.array("P", P)
        rest = tuple(d for k, d in enumerate(shape) if k != axis)
        Krow = A.fresh_array("row", rest, "int", fact=lambda v, idx: A._vand(v >= 0, v < n))
        calls = []

        def stub(values, allowed_values, axis=None, allowed_indices=None, return_distances=False, distance_metric="permittivity_differences_plus_average_permittivity"):
            calls.append(dict(values=values, allowed_values=allowed_values, axis=axis, allowed_indices=allowed_indices, return_distances=return_distances, distance_metric=distance_metric))
            return Krow

        saved = dz.nearest_index
        dz.nearest_index = stub
        try:
            c.cover("pre")
            res = mod({"p": P})
        finally:
            dz.nearest_index = saved
        c.prove("PillarDiscretization/call:nearest_index_once", len(calls) == 1)
        if len(calls) == 1:
            k = calls[0]
            c.prove("PillarDiscretization/call:values_axis_metric_table", k["values"] is P and k["axis"] == axis and k["distance_metric"] == metric and k["allowed_indices"] is mod._allowed_indices and k["return_distances"] is False)
            av = A.asarray(k["allowed_values"])
            ordered = compute_ordered_materials(mats)
            c.prove("PillarDiscretization/call:allowed_values_shape", av.ndim == 1 and av.shape[0] == M)
            for m in range(M):
                eps = ordered[m].permittivity
                eps = eps[0] if isinstance(eps, tuple) else eps
                val = av.at_index((m,))
                good = A.v_eq(val * Fraction(eps), 1) if A.is_sym(val) else abs(float(val) * float(eps) - 1.0) < 1e-12
                c.prove(f"PillarDiscretization/call:allowed_values[{m}]_is_inverse_permittivity_of_index_{m}", good)
        c.prove("PillarDiscretization/post:single_key", list(res.keys()) == ["p"])
        out = A.asarray(res["p"])
        ok = out.ndim == 3 and all(A._dim_same_syntactic(x, y) or A.dim_eq(x, y) for x, y in zip(out.shape, shape))
        c.prove("PillarDiscretization/post:shape", ok)
        if ok:
            tab = A.asarray(allowed)
            for label, idx, hy in index_cases(shape):
                ij = tuple(i for k_, i in enumerate(idx) if k_ != axis)
                row = Krow.at_index(ij)
                want = tab.at_index((A._raw_index(row), idx[axis]))
                c.prove(f"PillarDiscretization/post:column_is_selected_allowed_column[{label}]", A.v_eq(out.at_index(idx), want), extra_hyps=hy)

    return body


def names_of(M):
    return ["m%d" % i for i in range(M)]


def _pillar_end_to_end(L, M, single, axis, metric):
    """no cut: real init_module + real __call__ + real nearest_index"""

    def body(c, inp):
        import numpy as np

        shape = _values_shape(inp, axis, L)
        mod, mats, names, perms = _make_pillar_module(L, M, None, single, axis, metric, shape)
        allowed = np.asarray(mod._allowed_indices)
        n = allowed.shape[0]
        mod = mod.aset("_allowed_indices", A.asarray(allowed))
        inp.note("cfg", {"L": L, "M": M, "bg": None, "single": single, "axis": axis, "metric": metric, "allowed": allowed.tolist()})
        P = A.fresh_array("P", shape, "real")
        inp.array("P", P)
        c.cover("pre")
        out = A.asarray(mod({"p": P})["p"])
        rest = tuple(d for k, d in enumerate(shape) if k != axis)
        spec_rows = sorted(allowed_columns_spec(L, M, 0, single))
        inv = [Fraction(1) / Fraction(p) for p in perms]
        for label, idx, hy in index_cases(rest):
            ij = tuple(A._wrap_idx(i) for i in idx)
            col_in = _column(P, axis, ij, L)
            col_out = _column(out, axis, ij, L)
            # the output column is one of the allowed columns ...
            is_row = [True] * len(spec_rows)
            for r, row in enumerate(spec_rows):
                for l in range(L):
                    is_row[r] = A._vand(is_row[r], A.v_eq(col_out[l], row[l]))
            anyrow = False
            for r in range(len(spec_rows)):
                anyrow = A._vor(anyrow, is_row[r])
            c.prove(f"PillarDiscretization/post:output_column_allowed[{label}]", anyrow, extra_hyps=hy)
            # ... and no allowed column is strictly closer to the input column
            D = [_spec_distance(col_in, [inv[m] for m in row], metric) for row in spec_rows]
            for s in range(len(spec_rows)):
                for r in range(len(spec_rows)):
                    if r != s:
                        c.prove(f"PillarDiscretization/post:output_column_minimises_distance[{label}](column {spec_rows[s]} vs {spec_rows[r]})", _imp(is_row[s], D[s] <= D[r]), extra_hyps=hy)

    return body


# ---------------------------------------------------------------------------------------
# shim cross-check and bounded real-JAX evidence
# ---------------------------------------------------------------------------------------


def _np_pad_oracle(a, widths, modes, values):
    import numpy as np

    w6, m6 = _expand6(widths), _expand6(modes)
    v6 = [0] * 6 if values is None else _expand6(values)
    out = np.empty(tuple(a.shape[x] + w6[2 * x] + w6[2 * x + 1] for x in range(3)), dtype=a.dtype)
    for idx in itertools.product(*[range(s) for s in out.shape]):
        src = [idx[x] - w6[2 * x] for x in range(3)]
        val = None
        for ax in (2, 1, 0):
            j, n = src[ax], a.shape[ax]
            if j < 0:
                if m6[2 * ax] == "constant":
                    val = v6[2 * ax]
                    break
                src[ax] = 0
            elif j >= n:
                if m6[2 * ax + 1] == "constant":
                    val = v6[2 * ax + 1]
                    break
                src[ax] = n - 1
        out[idx] = a[tuple(src)] if val is None else val
    return out


def _np_median_oracle(a, ks, widths, modes, values):
    import numpy as np

    w6 = _expand6(widths)
    p = _np_pad_oracle(a.astype(np.int64), widths, modes, values)
    K = ks[0] * ks[1] * ks[2]
    out = np.zeros(a.shape, dtype=np.int64)
    h = [(k - 1) // 2 for k in ks]
    for idx in itertools.product(*[range(s) for s in a.shape]):
        c0 = [idx[x] + w6[2 * x] for x in range(3)]
        box = p[c0[0] - h[0] : c0[0] + h[0] + 1, c0[1] - h[1] : c0[1] + h[1] + 1, c0[2] - h[2] : c0[2] + h[2] + 1]
        out[idx] = 1 if 2 * int(box.sum()) > K else 0
    return out


def _shim_and_bounded(seed, n_cases):
    def body(c, inp):
        import importlib

        import jax
        import jax.numpy as rjnp
        import numpy as np

        from fdtdx.core.misc import PaddingConfig
        from vc.signal import convolve_nd

        rng = np.random.default_rng([seed, 24])
        for t in range(10):
            nd = 3
            ks = [1, 1, 1]
            ks[t % 3] = int(rng.choice([1, 2, 3, 4, 5]))
            sh = tuple(int(k + rng.integers(0, 4)) for k in ks)
            a = rng.integers(-3, 4, size=sh).astype(float)
            ker = np.ones(ks)
            ref = np.asarray(jax.scipy.signal.convolve(rjnp.asarray(a), rjnp.asarray(ker), mode="same", method="direct"))
            got = convolve_nd(A.asarray(a), A.asarray(ker), mode="same", method="direct").to_numpy(float)
            c.prove(f"shim/convolve_same_matches_real_jax[{t}]", bool(got.shape == ref.shape and np.abs(got - ref).max() < 1e-9))
        bt = importlib.import_module(BT_MOD)
        for t in range(n_cases):
            ks = tuple(int(x) for x in rng.choice([1, 3, 5], size=3))
            half = max((k - 1) // 2 for k in ks)
            sh = tuple(int(x) for x in rng.integers(1, 6, size=3))
            if t % 3 == 0:
                widths = (int(half + rng.integers(0, 3)),)
            else:
                widths = tuple(int((ks[e // 2] - 1) // 2 + rng.integers(0, 3)) for e in range(6))
            modes = tuple(str(x) for x in rng.choice(["constant", "edge"], size=6))
            values = tuple(int(x) for x in rng.integers(0, 2, size=6))
            a = (rng.random(sh) < rng.choice([0.3, 0.5, 0.7])).astype(np.float32)
            cfg = PaddingConfig(widths=widths, modes=modes, values=values)
            case = {"shape": list(sh), "kernel": list(ks), "widths": list(widths), "modes": list(modes), "values": list(values)}
            try:
                got = np.asarray(bt.binary_median_filter(rjnp.asarray(a), ks, cfg))
                ok = bool((np.rint(got).astype(int) == _np_median_oracle(a, ks, widths, modes, values)).all())
            except Exception as e:  # noqa: BLE001
                ok = False
                case["exception"] = repr(e)
            c.bounded("binary_median_filter/real_jax_matches_majority_oracle", ok, case=case, witness=dict(case, arr=[int(x) for x in a.ravel()]) if not ok else None)

    return body


def _bounded_pillars(seed, n_cases):
    def body(c, inp):
        import jax.numpy as rjnp
        import numpy as np

        rng = np.random.default_rng([seed, 2424])
        for t in range(n_cases):
            L = int(rng.integers(1, 5))
            M = int(rng.integers(2, 4))
            axis = int(rng.integers(0, 3))
            single = bool(rng.integers(0, 2))
            metric = ["euclidean", "permittivity_differences_plus_average_permittivity"][int(rng.integers(0, 2))]
            shape = [int(rng.integers(1, 4)), int(rng.integers(1, 4))]
            shape.insert(axis, L)
            shape = tuple(shape)
            mod, mats, names, perms = _make_pillar_module(L, M, None, single, axis, metric, shape)
            inv = [1.0 / p for p in perms]
            P = rng.uniform(0.0, 1.1, size=shape)
            case = {"L": L, "M": M, "axis": axis, "single": single, "metric": metric, "shape": list(shape)}
            out = np.rint(np.asarray(mod({"p": rjnp.asarray(P)})["p"])).astype(int)
            rows = sorted(allowed_columns_spec(L, M, 0, single))
            ok = out.shape == shape
            if ok:
                Pm, Om = np.moveaxis(P, axis, -1), np.moveaxis(out, axis, -1)
                for ij in itertools.product(*[range(s) for s in Pm.shape[:2]]):
                    col = [float(x) for x in Pm[ij]]
                    oc = tuple(int(x) for x in Om[ij])
                    if oc not in rows:
                        ok = False
                        break
                    d = {r: float(_spec_distance(col, [inv[m] for m in r], metric)) for r in rows}
                    if d[oc] > min(d.values()) + 1e-6:
                        ok = False
                        break
            c.bounded("PillarDiscretization/real_jax_output_allowed_and_nearest", ok, case=case, witness=dict(case, P=[float(x) for x in P.ravel()]) if not ok else None)

    return body


# ---------------------------------------------------------------------------------------
# task table
# ---------------------------------------------------------------------------------------

KERNELS_QUICK = [(1, 1, 1), (3, 1, 1), (1, 3, 1), (1, 1, 3), (3, 3, 1), (3, 3, 3), (5, 3, 1), (1, 5, 5), (5, 5, 5)]
KERNELS_THOROUGH = KERNELS_QUICK + [(7, 7, 7), (3, 5, 7)]
MIXED_W = (1, 2, 0, 3, 2, 1)


def _grouped(parts):
    """several configurations in one task (amortises process start-up); obligation names are prefixed.
    Every configuration creates its own fresh symbols, so the accumulated assumptions stay independent;
    each sub-body has its own vacuity guard (c.cover)."""

    def body(c, inp):
        for pre, sub in parts:
            orig_prove, orig_cover = c.prove, c.cover

            def pr(name, goal, *a, _o=orig_prove, _p=pre, **kw):
                return _o(_p + name, goal, *a, **kw)

            def cv(name, _o=orig_cover, _p=pre):
                return _o(_p + name)

            c.prove, c.cover = pr, cv
            try:
                sub(c, inp)
            finally:
                c.prove, c.cover = orig_prove, orig_cover

    return body


def _raised(c, e):
    """an exception out of the repository code on a feasible path is a contract violation (the contracts
    promise a result for every input satisfying the stated preconditions)"""
    c.prove(f"no_exception_on_valid_input({type(e).__name__})", False)


def STask(body, **kw):
    kw.setdefault("on_exception", _raised)
    kw.setdefault("max_paths", 48)
    return Task(body, **kw)


def _chunks(lst, n):
    for i in range(0, len(lst), n):
        yield i // n, lst[i : i + n]


def tasks(tier, seed):
    out = {}
    thorough = tier == "thorough"
    rnd = random.Random(seed)
    # --- padding contract: all 64 constant/edge face assignments, several width patterns
    mode_sets = list(itertools.product(("constant", "edge"), repeat=6))
    width_sets = [(1,), (10,), MIXED_W] + ([(2,), (3,), (20,), (0, 1, 2, 3, 4, 5)] if thorough else [])
    for wi, w in enumerate(width_sets):
        for g, lst in _chunks(mode_sets, 16):
            parts = [("modes=" + "".join(m[0] for m in ms) + ",widths=" + "-".join(map(str, w)) + ":", _padding_task(ms, w, sym_values=[0] * 6)) for ms in lst]
            out[f"padding/w{'-'.join(map(str, w))}/g{g}"] = STask(_grouped(parts))
    out["padding/defaults"] = STask(_grouped([("modes=e,widths=2,values=None:", _padding_task(("edge",), (2,), None)), ("modes=c,widths=3,values=(v,):", _padding_task(("constant",), (3,), [0]))]))
    # --- Lemma M (arbitrary padded array), one task per kernel
    for ks in KERNELS_THOROUGH if thorough else KERNELS_QUICK:
        half = [(k - 1) // 2 for k in ks]
        wsets = [tuple(h for h in half for _ in (0, 1)), (max(half) + 1,), (10,)]
        if ks == (3, 3, 3):
            wsets.append((1, 2, 1, 3, 2, 1))
        parts = []
        for w in dict.fromkeys(wsets):
            for kind in ("real", "bool"):
                if kind == "bool" and w == (10,):
                    continue
                parts.append((f"widths={'-'.join(map(str, w))},{kind}:", _median_lemma(ks, w, kind)))
        out[f"median/lemma/k{'x'.join(map(str, ks))}"] = STask(_grouped(parts))
    # --- end to end (no cut), incl. the repository's own configurations
    e2e = [
        ((3, 3, 1), (1,), ("edge",), None, "real"),
        ((3, 1, 3), (2,), ("constant",), (1,), "real"),
        ((3, 3, 3), (10,), ("constant",) * 6, (1, 0, 1, 1, 1, 0), "real"),  # BOTTOM_Z_PADDING_CONFIG
        ((3, 3, 3), (20,), ("edge", "edge", "edge", "edge", "constant", "edge"), (1,), "real"),  # BOTTOM_Z_PADDING_CONFIG_REPEAT
        ((1, 3, 5), (1, 1, 1, 2, 2, 3), ("edge", "constant", "constant", "edge", "edge", "constant"), (0, 1, 1, 0, 0, 1), "bool"),
    ]
    for g, lst in _chunks(list(enumerate(e2e)), 3):
        out[f"median/end_to_end/{g}"] = STask(_grouped([(f"cfg{i}:", _median_end_to_end(*cfg)) for i, cfg in lst]))
    out["median/module"] = STask(_grouped([(f"repeats={r}:", _median_module(r)) for r in (1, 3)]))
    # --- allowed columns (concrete enumeration)
    Lmax, Mmax = (6, 4) if thorough else (5, 4)
    combos = [(L, M, bg, s) for L in range(1, Lmax + 1) for M in range(2, Mmax + 1) for bg in range(M) for s in (False, True) if (M - 1) ** L <= 1100]
    for g, lst in _chunks(combos, 48):
        out[f"allowed_columns/{g:02d}"] = Task(_allowed_task(lst))
    # --- nearest_index contract
    near = []
    metrics = ["euclidean", "permittivity_differences_plus_average_permittivity"]
    LM = [(1, 2), (2, 2), (3, 2), (4, 2), (2, 3), (3, 3)] + ([(5, 2), (4, 3), (2, 4), (3, 4)] if thorough else [])
    for L, M in LM:
        for single in (False, True):
            if M == 2 and single:
                continue  # identical table
            for metric in metrics:
                nrows = len(allowed_columns_spec(L, M, 0, single))
                if (metric == "euclidean" and nrows > 16) or nrows > 32:
                    continue  # beyond the per-task budget (bound listed in ASSUMPTIONS)
                small = len(allowed_columns_spec(L, M, 0, single)) <= 16
                axes = (0, 1, 2) if (L, M) in ((2, 2), (3, 3)) or (thorough and small) else (rnd.randrange(3),)
                for axis in axes:
                    bgs = range(M) if (L, M) == (2, 3) or (thorough and small) else (rnd.randrange(M),)
                    for bg in bgs:
                        near.append((L, M, bg, single, axis, metric))
    # group light configurations; heavy ones (many rows, nonlinear euclidean terms) get their own task because
    # the solver context (sqrt monotonicity instances) accumulates inside a task
    groups, cur, wsum = [], [], 0
    for cfg in near:
        L, M, bg, single, axis, metric = cfg
        wgt = len(allowed_columns_spec(L, M, bg, single)) * (3 if metric == "euclidean" or L == 1 else 1)
        if cur and wsum + wgt > 24:
            groups.append(cur)
            cur, wsum = [], 0
        cur.append(cfg)
        wsum += wgt
    if cur:
        groups.append(cur)
    for g, lst in enumerate(groups):
        parts = [(f"L{L}M{M}bg{bg}{'s' if single else 'm'},axis{axis},{metric[:4]}:", _nearest_task(L, M, bg, single, axis, metric)) for L, M, bg, single, axis, metric in lst]
        out[f"nearest/{g:02d}"] = STask(_grouped(parts))
    # --- PillarDiscretization wrapper (cut at nearest_index) and end to end
    for axis in (0, 1, 2):
        parts = []
        for L, M, bg, single in ((3, 2, None, False), (2, 3, 1, True), (3, 3, None, True), (1, 2, 1, False)):
            metric = metrics[(axis + L) % 2]
            parts.append((f"L{L}M{M}bg{bg}{'s' if single else 'm'},{metric[:4]}:", _pillar_wrapper(L, M, bg, single, axis, metric)))
        out[f"pillar/wrapper/axis{axis}"] = STask(_grouped(parts))
    ends = [(2, 2, 2, False, metrics[1]), (0, 3, 2, False, metrics[0]), (1, 2, 3, True, metrics[1]), (2, 1, 3, False, metrics[1])]
    for g, lst in _chunks(ends, 2):
        out[f"pillar/end_to_end/{g}"] = STask(_grouped([(f"axis{axis},L{L}M{M}{'s' if single else 'm'},{metric[:4]}:", _pillar_end_to_end(L, M, single, axis, metric)) for axis, L, M, single, metric in lst]))
    # --- shim cross-check + bounded real-JAX evidence
    out["shim_crosscheck_and_real_jax_median"] = Task(_shim_and_bounded(seed, 120 if thorough else 40), modules=[])
    out["real_jax_pillars"] = Task(_bounded_pillars(seed, 60 if thorough else 20), modules=[])
    return out


def replay(key, obligation, witness):
    """real functions under real JAX on the witness; when the solver's model lives on a huge grid (array
    shapes are unconstrained symbols) a seeded search over small inputs of the same configuration is used"""
    import numpy as np

    from vc.harness import witness_arrays_to_numpy

    w = witness or {}
    arrs = witness_arrays_to_numpy(w) if "arrays" in w else {}
    usable = all(a.size > 0 for a in arrs.values()) and any(k in arrs for k in ("arr", "values", "P"))
    first = ""
    if "arr" in w or key.startswith("allowed_columns") or usable:
        try:
            ok, first = _replay_once(key, obligation, w, arrs, None)
        except Exception as e:  # noqa: BLE001
            return True, f"the real code raises {type(e).__name__} on the witness: {str(e)[:300]}"
        if ok or "arr" in w or key.startswith("allowed_columns"):
            return ok, first
        first = "solver witness not reproduced in floating point (" + first + "); "
    rng = np.random.default_rng(24)
    detail = "no replay for this obligation"
    for t in range(120):
        try:
            ok, detail = _replay_once(key, obligation, w, {}, rng)
        except Exception as e:  # noqa: BLE001
            ok, detail = True, f"the real code raises {type(e).__name__}: {str(e)[:300]}"
        if ok:
            return True, first + f"(seeded search, trial {t}) " + detail
    return False, first + "no small failing input found in 120 seeded trials; last: " + detail


def _replay_once(key, obligation, w, arrs, rng):
    import importlib
    import re

    import jax.numpy as jnp
    import numpy as np

    from fdtdx.core.misc import PaddingConfig, advanced_padding

    cfg = (w.get("notes") or {}).get("cfg") or {}
    sc = w.get("scalars", {})
    bt = importlib.import_module(BT_MOD)
    if key.startswith("shim_crosscheck") or "real_jax_matches_majority_oracle" in obligation:
        if "arr" not in w:
            return False, "no witness"
        a = np.array(w["arr"], dtype=np.float32).reshape(w["shape"])
        got = np.rint(np.asarray(bt.binary_median_filter(jnp.asarray(a), tuple(w["kernel"]), PaddingConfig(widths=tuple(w["widths"]), modes=tuple(w["modes"]), values=tuple(w["values"]))))).astype(int)
        exp = _np_median_oracle(a, tuple(w["kernel"]), w["widths"], w["modes"], w["values"])
        return bool((got != exp).any()), f"binary_median_filter on {w['shape']} kernel {w['kernel']}: {int((got != exp).sum())} voxels differ from the majority oracle"
    if key.startswith("padding/"):
        modes, widths = cfg.get("modes"), cfg.get("widths")
        m = re.match(r"modes=([ce]{6}),widths=([\d-]+):", obligation)
        if m:
            modes = [{"c": "constant", "e": "edge"}[ch] for ch in m.group(1)]
            widths = [int(x) for x in m.group(2).split("-")]
        if modes is None:
            return False, "witness incomplete"
        a = arrs.get("arr")
        if a is None:
            a = rng.normal(size=tuple(int(x) for x in rng.integers(1, 4, size=3)))
            vals = [float(x) for x in rng.normal(size=6)]
        else:
            vals = [float(sc.get(f"val{e}", 0.0)) if isinstance(sc.get(f"val{e}", 0.0), (int, float)) else 0.0 for e in range(6)]
        out, sl = advanced_padding(jnp.asarray(a), PaddingConfig(widths=tuple(widths), modes=tuple(modes), values=tuple(vals)))
        exp = _np_pad_oracle(a, widths, modes, vals)
        out = np.asarray(out)
        w6 = _expand6(widths)
        sl_ok = all(s.start == w6[2 * x] and s.stop == w6[2 * x] + a.shape[x] for x, s in enumerate(sl))
        bad = out.shape != exp.shape or bool(np.abs(out - exp).max() > 1e-6) or not sl_ok
        return bad, f"advanced_padding modes={modes} widths={widths} on shape {a.shape}: real result {'differs from' if bad else 'equals'} the index-wise padding (slices {'ok' if sl_ok else 'wrong'})"
    if key.startswith("median/lemma") or key.startswith("median/end_to_end"):
        if "kernel" not in cfg:
            return False, "witness incomplete"
        ks = tuple(cfg["kernel"])
        modes = cfg.get("modes", ["edge"])
        values = cfg.get("values")
        a = arrs.get("arr")
        if a is None:
            w6 = _expand6(cfg["widths"])
            lo = [max(1, ks[x] - w6[2 * x] - w6[2 * x + 1]) for x in range(3)]
            a = rng.random(tuple(int(lo[x] + rng.integers(0, 4)) for x in range(3))) < rng.choice([0.3, 0.5, 0.7])
        a = (a != 0).astype(np.float32)
        got = np.rint(np.asarray(bt.binary_median_filter(jnp.asarray(a), ks, PaddingConfig(widths=tuple(cfg["widths"]), modes=tuple(modes), values=None if values is None else tuple(values))))).astype(int)
        exp = _np_median_oracle(a, ks, cfg["widths"], modes, values)
        bad = got.shape != exp.shape or bool((got != exp).any())
        return bad, f"binary_median_filter kernel {ks} widths {cfg['widths']} modes {modes} on shape {a.shape}: {'shape differs' if got.shape != exp.shape else str(int((got != exp).sum())) + ' voxels differ'} from the majority oracle"
    if key.startswith("median/module"):
        from fdtdx.objects.device.parameters.discrete import BinaryMedianFilterModule

        r = int(re.search(r"repeats=(\d+)", obligation).group(1)) if re.search(r"repeats=(\d+)", obligation) else 3
        a = (rng.random((5, 6, 4)) < 0.5).astype(np.float32) if rng is not None else np.zeros((5, 6, 4), np.float32)
        pc = PaddingConfig(widths=(2,), modes=("edge",))
        got = np.asarray(BinaryMedianFilterModule(padding_cfg=pc, kernel_sizes=(3, 5, 1), num_repeats=r)({"p": jnp.asarray(a)})["p"])
        exp = a
        for _ in range(r):
            exp = _np_median_oracle(exp, (3, 5, 1), (2,), ("edge",), None).astype(np.float32)
        return bool(np.abs(got - exp).max() > 1e-6), f"BinaryMedianFilterModule(num_repeats={r}) on a 5x6x4 design: {int((np.abs(got - exp) > 1e-6).sum())} voxels differ from the {r}-fold majority filter"
    if key.startswith("nearest/") or key.startswith("pillar/"):
        if "L" not in cfg:
            return False, "witness incomplete"
        L, M, axis, metric = cfg["L"], cfg["M"], cfg["axis"], cfg["metric"]
        vals = arrs.get("values", arrs.get("P"))
        if vals is None:
            shp = [int(x) for x in rng.integers(1, 4, size=2)]
            shp.insert(axis, L)
            vals = rng.uniform(0.0, 1.2, size=shp)
        if key.startswith("pillar/"):
            bg = cfg.get("bg")
            single = cfg["single"]
            mod, mats, names, perms = _make_pillar_module(L, M, None if bg is None else names_of(M)[bg], single, axis, metric, vals.shape)
            out = np.rint(np.asarray(mod({"p": jnp.asarray(vals)})["p"])).astype(int)
            rows = sorted(allowed_columns_spec(L, M, 0 if bg is None else bg, single))
            inv = [1.0 / p for p in perms]
            if out.shape != vals.shape:
                return True, f"PillarDiscretization axis={axis}: output shape {out.shape} != input shape {vals.shape}"
            Vm, Om = np.moveaxis(vals, axis, -1), np.moveaxis(out, axis, -1)
            worst, notallowed = 0.0, 0
            for ij in itertools.product(*[range(x) for x in Vm.shape[:2]]):
                oc = tuple(int(x) for x in Om[ij])
                if oc not in rows:
                    notallowed += 1
                    continue
                col = [float(x) for x in Vm[ij]]
                d = {r: float(_spec_distance(col, [inv[m] for m in r], metric)) for r in rows}
                worst = max(worst, d[oc] - min(d.values()))
            return bool(notallowed or worst > 1e-9), f"PillarDiscretization L={L} M={M} axis={axis} bg={bg} single={single} metric={metric} on shape {vals.shape}: {notallowed} columns not allowed, worst excess distance {worst:.3g}"
        ut = importlib.import_module(UT_MOD)
        allowed = np.array(cfg["allowed"], dtype=int)
        av = arrs.get("allowed_values")
        if av is None:
            av = rng.uniform(0.1, 1.0, size=M)
        idx = np.asarray(ut.nearest_index(values=jnp.asarray(vals), allowed_values=jnp.asarray(av), axis=axis, distance_metric=metric, allowed_indices=jnp.asarray(allowed)))
        Vm = np.moveaxis(vals, axis, -1)
        if idx.shape != Vm.shape[:2]:
            return True, f"nearest_index axis={axis}: result shape {idx.shape} for values {vals.shape}"
        worst = 0.0
        for ij in itertools.product(*[range(x) for x in Vm.shape[:2]]):
            col = [float(x) for x in Vm[ij]]
            d = [float(_spec_distance(col, [float(av[m]) for m in row], metric)) for row in allowed]
            worst = max(worst, d[int(idx[ij])] - min(d))
        return worst > 1e-9, f"nearest_index L={L} M={M} axis={axis} metric={metric} on shape {vals.shape}: chosen row exceeds the minimal distance by {worst:.3g}"
    if key.startswith("allowed_columns"):
        m = re.search(r"\[L(\d+)M(\d+)bg(\d+)(single|multi)\]", obligation)
        if not m:
            return False, "obligation does not name a configuration"
        L, M, bg, single = int(m.group(1)), int(m.group(2)), int(m.group(3)), m.group(4) == "single"
        rows = {tuple(int(x) for x in r) for r in _real_allowed(L, M, bg, single)}
        spec = allowed_columns_spec(L, M, bg, single)
        return rows != spec, f"compute_allowed_indices(L={L}, M={M}, bg={bg}, single={single}): {len(rows - spec)} rows not allowed, {len(spec - rows)} allowed columns missing (e.g. {sorted(rows - spec)[:2]} / {sorted(spec - rows)[:2]})"
    return False, "no replay for this obligation"
