"""C26  Resolved object placement satisfies every constraint.

Structure of the argument (DESIGN section 4):

 (R) rule contracts   every placement rule of fdtdx.fdtd.initialization, run on symbolic Optional[int]
                      cells for every enumerated known/unknown pattern, satisfies frame / set-once /
                      idle / sound / flag (see spec/C26_rules.py).  "sound" is stated with the
                      PROPERTY-TEXT oracle of spec/C26_placement.py (nearest admissible edge/interval,
                      no tie-breaking demanded).
 (E) end to end       the real `resolve_object_constraints` (driver `_apply_constraints_iteratively`
                      included, no stub except the grid accessors) on a catalogue of constraint-system
                      structures with SYMBOLIC sizes, coordinates, margins and offsets, in every order
                      of the constraint list (sampled above 12 orders in the quick tier): on every
                      exit without errors the whole C26 post-condition is proved for the returned
                      slices: inside the volume, positive size, declared sizes, every constraint clause,
                      unconstrained axes span the volume.  This is the driver exit obligation
                      "on every non-error exit every constraint has been validated against the final
                      state", checked semantically.
 (S) state sweep      the "arbitrary intermediate state" form of the exit obligation: every one of the 64
                      known/unknown patterns of the cells (size, lower, upper) of two objects is produced
                      from the real initial state by declared sizes and leading GridCoordinateConstraints
                      with symbolic values; one main constraint (position / size / extension) between the
                      objects is listed first or last; same post-condition as (E).
 (B) bounded          seeded random concrete systems (<= 3 objects + volume, <= 5 constraints, up to
                      24 orders each) through the real code under real numpy/JAX with the real
                      RectilinearGrid, judged by the same oracle; comparison of the grid stand-in with
                      the real RectilinearGrid on enumerated concrete arguments.

Lifting (R)+(E) to arbitrary systems is a pencil argument: cells are set-once (R), so a clause that
was evaluated with all its cells known stays true; the driver may only leave the loop after a pass
that changed nothing (flag contract), in which every rule was evaluated against the final state.
(E) is the mechanical check of exactly that exit argument on the catalogue.
"""

from __future__ import annotations

import random

from vc.harness import Task

ID = "C26"
LEVEL = "proof"
TECHNIQUE = "symbolic execution of the real placement rules and of the real resolve_object_constraints over Optional[int] cells (known/unknown patterns and system structures enumerated, all numbers symbolic), z3 linear integer/real arithmetic; grid accessors replaced by their nearest-edge contract"
MODULES = ["fdtdx.fdtd.initialization"]
PATCH_NAMES = ("math", "float")
FILES = ["src/fdtdx/fdtd/initialization.py", "src/fdtdx/objects/object.py", "src/fdtdx/core/grid.py"]
FUNCTIONS = [
    "fdtdx.fdtd.initialization.resolve_object_constraints",
    "fdtdx.fdtd.initialization._apply_constraints_iteratively",
    "fdtdx.fdtd.initialization._apply_grid_coordinate_constraint",
    "fdtdx.fdtd.initialization._apply_real_coordinate_constraint",
    "fdtdx.fdtd.initialization._apply_position_constraint",
    "fdtdx.fdtd.initialization._apply_size_constraint",
    "fdtdx.fdtd.initialization._apply_size_extension_constraint",
    "fdtdx.fdtd.initialization._update_grid_slices_from_shapes",
    "fdtdx.fdtd.initialization._update_grid_shapes_from_slices",
    "fdtdx.fdtd.initialization._extend_to_inf_if_possible",
]
INLINED = [
    "fdtdx.fdtd.initialization._resolve_static_shapes",
    "fdtdx.fdtd.initialization._resolve_static_positions_initial/_iterative (no-ops: objects carry no partial_real_position)",
    "fdtdx.fdtd.initialization._real_length_to_grid_size/_real_coord_to_edge_index/_handle_unresolved_objects/_resolve_volume_name/_check_objects_names_from_constraints",
    "fdtdx.config.SimulationConfig.resolved_grid/has_nonuniform_grid/uniform_spacing",
]
STUBS = [
    "RectilinearGrid.coord_to_index/length_to_cell_count/bounds_for_center/bounds_for_anchor/anchor_coordinate/axis_extent on a uniform grid: replaced by spec.C26_placement.SpecGrid (closest edge / closest admissible interval, first minimiser on ties; the real methods index numpy arrays and need concrete integers). Compared with the real RectilinearGrid on enumerated concrete arguments (bounded part 'gridstub'); their own proof is property C37.",
]
ASSUMPTIONS = [
    "uniform grid, spacing normalised to 1 (real coordinates, margins and offsets are symbolic reals in units of the spacing); non-uniform grids are exercised by the bounded part only through the uniform RectilinearGrid",
    "anchor positions enumerated over {-1, 0, 1} (+ 0.5 in the thorough tier), size proportions over {1, 1/2, 2} (+ 3/4): products of two symbolic quantities are outside linear arithmetic",
    "objects are described by partial_grid_shape and constraints; partial_real_shape / partial_real_position are not constraints in the sense of the property and are not covered",
    "fewer than ~110 objects: the driver's max_iter=1000 exit is not reached (each pass before quiescence fixes at least one of the 9 cells of an object)",
    "declared sizes are assumed to fit into the volume in the symbolic runs (larger ones make the grid accessors raise ValueError, i.e. a placement error; exercised by the bounded runs)",
    "lifting from the enumerated system structures to arbitrary constraint lists is the pencil argument in the module docstring",
]
MIN_OBLIGATIONS = {"quick": 11000, "thorough": 20000}
LEVEL_TEXT = "Deductive proof, for all integer and real parameter values, of the per-rule contracts (every known/unknown cell pattern) and of the full C26 post-condition on every non-error exit of the real resolve_object_constraints for a catalogue of constraint-system structures in all (quick: up to 12) constraint orders"
LEVEL_NOTE = "structures enumerated (<= 3 objects + volume, <= 4 constraints); grid accessors by contract; general systems by a stated pencil argument; random concrete systems through the unmodified code as a bounded cross-check"
BOUNDED_RULE = "bounded parts: (gridstub) SpecGrid == real RectilinearGrid on enumerated arguments; (random) seeded random concrete systems run through the real code, every success judged by the C26 oracle"

E2E_CAP = {"quick": 12, "thorough": 120}


def _gridstub(c, inp):
    from spec import C26_placement as P

    bad = []
    n = 0
    for label, ok, detail in P.grid_stub_cases():
        n += 1
        if not ok:
            bad.append((label, detail))
    c.bounded("SpecGrid==RectilinearGrid.uniform on enumerated arguments", not bad, case={"cases": n}, witness={"mismatches": bad[:10]})
    for k in range(0, n, 500):
        c.bounded(f"gridstub/chunk{k // 500}", not bad, case={"from": k, "to": min(n, k + 500)})


def _random_chunk(chunk, seed, count):
    def body(c, inp):
        from spec import C26_placement as P
        from spec import C26_rules as RU

        rnd = random.Random(f"C26-{seed}-{chunk}")
        for i in range(count):
            system = RU.planted_system(rnd) if i % 4 else RU.random_system(rnd)
            orders = RU.sample_orders(len(system["constraints"]), 24, rnd)
            n_ok = 0
            failure = None
            for order in orders:
                ok, viol, slices, errors = P.check_real(system, {}, order=list(order))
                if ok:
                    n_ok += 1
                    if viol and failure is None:
                        failure = {"system": {k: system[k] for k in ("objects", "constraints")}, "order": list(order), "violated": viol, "slices": repr(slices)}
            c.bounded(f"random/{chunk}/{i}", failure is None, case={"system": repr(system["objects"]) + repr(system["constraints"]), "orders": len(orders), "successful_orders": n_ok}, witness=failure)

    return body


def tasks(tier, seed):
    from spec import C26_rules as RU

    out = {}
    out["gridstub"] = Task(_gridstub, patch_names=())
    for key, body in RU.rule_tasks(tier).items():
        out[key] = Task(body, patch_names=PATCH_NAMES, max_paths=512)
    for name, system in RU.systems(tier).items():
        for order in RU.permutations_for(system, tier, seed, E2E_CAP[tier]):
            out[f"e2e/{name}/{''.join(map(str, order))}"] = Task(RU.e2e_body(system, order), patch_names=PATCH_NAMES, max_paths=4096)
        n_obj = len(system["objects"])
        if n_obj >= 3:
            rev = tuple(reversed(range(n_obj)))
            out[f"e2e/{name}/objects_reversed"] = Task(RU.e2e_body(system, tuple(range(len(system["constraints"]))), obj_order=rev), patch_names=PATCH_NAMES, max_paths=4096)
    for k, (skey, system, first, last) in enumerate(RU.sweep_tasks(tier)):
        for tag, order in (("main_first", first), ("main_last", last)):
            if tier == "quick" and (k % 2 == 0) != (tag == "main_first"):
                continue
            out[f"sweep/{skey}/{tag}"] = Task(RU.e2e_body(system, order), patch_names=PATCH_NAMES, max_paths=4096)
    n_chunks, per = (8, 40) if tier == "quick" else (16, 250)
    for k in range(n_chunks):
        out[f"random/{k:02d}"] = Task(_random_chunk(k, seed, per), patch_names=())
    return out


def _system_of(key):
    from spec import C26_rules as RU

    parts = key.split("/")
    if parts[0] == "e2e":
        return parts[1], RU.systems("thorough")[parts[1]]
    if parts[0] in ("sweep", "rel_sweep"):
        skey = f"{parts[1]}/{parts[2]}"
        for k, system, first, last in RU.sweep_tasks("thorough"):
            if k == skey:
                return skey, system
    raise KeyError(key)


def _plain_system(d):
    """JSON round trip turns tuples into lists and Fractions into strings"""
    import re
    from fractions import Fraction

    def conv(x):
        if isinstance(x, list):
            return tuple(conv(y) for y in x)
        if isinstance(x, str) and re.fullmatch(r"-?\d+(/\d+)?", x):
            return Fraction(x)
        return x

    return {"objects": [conv(o) for o in d["objects"]], "constraints": [conv(c) for c in d["constraints"]]}


def replay(key, obligation, witness):
    """real resolve_object_constraints (real RectilinearGrid, real numpy/JAX) on the witness values"""
    from spec import C26_placement as P
    from spec import C26_rules as RU

    if key.startswith("random/"):
        if not witness:
            return False, "no witness"
        system = _plain_system(witness["system"])
        ok, viol, slices, errors = P.check_real(system, {}, order=witness["order"])
        return bool(ok and viol), f"real code, objects {system['objects']} constraints {system['constraints']} order {witness['order']}: " + (f"SUCCESS slices={slices}; violated clauses: {viol}" if ok else f"errors {errors}")
    if key.startswith("gridstub"):
        return False, f"grid stand-in differs from the real grid (contract of the stub is wrong, not the repository): {witness}"
    if key.startswith("rule/"):
        return RU.replay_rule(key, obligation, witness)
    try:
        name, system = _system_of(key)
    except KeyError:
        return False, f"no replay for task {key}"
    vals = RU.witness_values(system, witness)
    if vals is None:
        return False, f"witness incomplete: {witness}"
    notes = (witness or {}).get("notes", {})
    order = notes.get("order")
    obj_order = notes.get("obj_order")
    ok, viol, slices, errors = P.check_real(system, vals, order=order, obj_order=obj_order)
    detail = f"system '{name}' values {({k: str(v) for k, v in vals.items()})} constraint order {order} object order {obj_order}: real resolve_object_constraints -> " + (f"SUCCESS slices={slices}; violated clauses: {viol}" if ok else f"errors {errors}")
    return bool(ok and viol), detail
