"""C06  Simulation state depends only on the steps executed, not on how the run is split.

Contracts (postconditions from the property text)

  ArrayContainer.reset()        ensures every time-dependent array (E, H, PML auxiliaries, dispersive
                                polarisations, detector buffers) is zero with unchanged shape; materials,
                                conductivities, dispersive coefficients, the permittivity backup and (by
                                default) the recording state are the caller's.  Hence reset(X) == reset(Y)
                                whenever X and Y share materials and shapes (e.g. Y = result of a run on X).
  custom_fdtd_forward(arrays, .., reset_container, record_detectors, a, b)      requires 0 <= a <= b <= T
                                ensures result == (b, forward^(b-a)((a, arrays or reset(arrays))))
  split law                     custom(a, m) ; custom(m, b, reset_container=False)  ==  custom(a, b)
  run_fdtd(arrays)              == custom_fdtd_forward(arrays, reset_container=True, record_detectors=True, 0, T)
  rerun law                     run_fdtd(result of run_fdtd(arrays)) starts from a state pointwise equal to
                                the start state of run_fdtd(arrays) and executes the same steps.

Loops by the while rule of spec/C05_timeloop.py (assumed contract of the loop primitive; iteration lemma).
"""

from __future__ import annotations

from props import C05 as P5
from spec import C05_timeloop as TL
from vc import array as A
from vc import scene
from vc.core import ctx, v_eq
from vc.harness import Task
from vc.obl import prove_pointwise, prove_same_shape, sym_int

ID = "C06"
LEVEL = "proof"
TECHNIQUE = "symbolic execution of the real ArrayContainer.reset; while rule with an assumed contract for equinox.internal.while_loop applied to the real loop pieces of custom_fdtd_forward / run_fdtd; iteration lemma for the split; z3"
MODULES = P5.MODULES
FILES = ["src/fdtdx/fdtd/fdtd.py", "src/fdtdx/fdtd/container.py", "src/fdtdx/fdtd/wrapper.py", "src/fdtdx/fdtd/forward.py", "src/fdtdx/fdtd/stop_conditions.py"]
FUNCTIONS = [
    "fdtdx.fdtd.container.ArrayContainer.reset",
    "fdtdx.fdtd.fdtd.custom_fdtd_forward",
    "fdtdx.fdtd.fdtd.checkpointed_fdtd",
    "fdtdx.fdtd.wrapper.run_fdtd",
    "fdtdx.fdtd.forward.forward (step counter, frame)",
]
INLINED = P5.INLINED
STUBS = P5.STUBS + ["interfaces.state.RecordingState buffers: arbitrary arrays"]
ASSUMPTIONS = [
    "iteration lemma L7: body^m(body^n(x)) = body^(n+m)(x) (Function.iterate_add_apply); its side condition (the second run's start counter equals the first run's end counter) is an obligation",
    "partial runs lie inside the configured run: 0 <= start <= end <= time_steps_total (custom_fdtd_forward caps the number of steps at time_steps_total; longer partial runs are truncated and are outside the property)",
    "forward is a function of (step counter, arrays, config, objects, key, flags): no hidden mutable state (Python purity of the step function, checked by reading; the counter/frame part is proved)",
    "progress bar disabled (show_progress=False)",
    "update_E / update_H / update_detector_states do not read recording_state (reset keeps the recording buffers by design; re-runs are compared on fields, detector states and materials)",
]
MIN_OBLIGATIONS = {"quick": 1800, "thorough": 1800}
LEVEL_TEXT = (
    "Deductive proof for all shapes, states, total step counts and split points: the real ArrayContainer.reset zeroes every time-dependent leaf and keeps "
    "materials (so resets of containers sharing materials coincide); the real custom_fdtd_forward executes exactly end-start forward steps from its start "
    "counter with the caller's flags, consecutive partial runs compose to the single run (while rule + iteration lemma), run_fdtd equals the partial run "
    "over [0,T] from the reset container, and a re-run from returned arrays starts from a pointwise identical state"
)
LEVEL_NOTE = "loop primitive by assumed contract; the step function is abstract (its determinism is Python purity); reals exact (v*0 = 0); partial runs longer than time_steps_total are outside the contract (silently truncated by the code)"


def _recording_state(tag):
    from fdtdx.interfaces.state import RecordingState

    n = sym_int(f"rec_len_{tag}", lo=0)
    return RecordingState(data={"pml_min_x": A.fresh_array(f"rec_data_{tag}", (n, 4))}, state={"cnt": A.fresh_array(f"rec_state_{tag}", (2,), "int")})


def _container(inp, tag="", dispersive=False, materials_of=None):
    """generic container; with `materials_of` another container: same shapes and materials, fresh
    (arbitrary) time-dependent state -- what any run returns for it by the frame of forward"""
    from fdtdx.fdtd.container import ArrayContainer, FieldState

    if materials_of is None:
        shape, arr = P5.make_scene(inp, T=sym_int("n_readings", lo=0))
        arr = arr.aset("recording_state", _recording_state(tag))
        arr = arr.aset("initial_inv_permittivities", A.fresh_array("initial_inv_eps", arr.inv_permittivities.shape))
        arr = arr.aset("magnetic_conductivity", A.fresh_array("sigma_H", (3, *shape)))
        if dispersive:
            npole = sym_int("n_poles", lo=1)
            f = arr.fields
            f = f.aset("dispersive_P_curr", A.fresh_array("P_curr", (npole, 3, *shape)))
            f = f.aset("dispersive_P_prev", A.fresh_array("P_prev", (npole, 3, *shape)))
            arr = arr.aset("fields", f)
            for nm in ("dispersive_c1", "dispersive_c2", "dispersive_c3", "dispersive_c4"):
                arr = arr.aset(nm, A.fresh_array(nm, (npole, 1, *shape)))
        return arr
    return TL.havoc_container(materials_of, TL._Probe(None), f"other{tag}")


def _reset_contract(dispersive):
    def body(c, inp):
        A0 = _container(inp, dispersive=dispersive)
        before = {p: x for p, x in TL.dynamic_leaves(A0)}
        c.cover("pre")
        R = A0.reset()
        TL.prove_is_reset_of("reset/post", R, A0)
        # documented options
        R2 = A0.reset(reset_detector_states=False)
        c.prove("reset(reset_detector_states=False)/post:detectors_kept", TL.same(R2.detector_states, A0.detector_states))
        for nm in ("E", "H"):
            prove_pointwise(f"reset(reset_detector_states=False)/post:fields.{nm}:zero", getattr(R2.fields, nm), lambda v, idx: v_eq(v, 0))
        R3 = A0.reset(reset_recording_state=True)
        rs, rs0 = R3.recording_state, A0.recording_state
        ok = c.prove("reset(reset_recording_state=True)/post:structure", type(rs) is type(rs0) and list(rs.data) == list(rs0.data) and list(rs.state) == list(rs0.state))
        if ok:
            for grp in ("data", "state"):
                for k in getattr(rs0, grp):
                    prove_same_shape(f"reset(reset_recording_state=True)/post:{grp}[{k}]", getattr(rs, grp)[k], getattr(rs0, grp)[k])
                    prove_pointwise(f"reset(reset_recording_state=True)/post:{grp}[{k}]:zero", getattr(rs, grp)[k], lambda v, idx: v_eq(v, 0))
        # the caller's container is not modified
        c.prove("reset/frame:caller_container_untouched", all(TL.same(x, before[p]) for p, x in TL.dynamic_leaves(A0)) and len(before) == len(list(TL.dynamic_leaves(A0))))
        # resets of two containers with the same materials coincide (arbitrary other dynamic state)
        B0 = _container(inp, tag="B", materials_of=A0)
        RB = B0.reset()
        TL.prove_same_container("reset/same_materials=>same_reset", RB, R, skip=("recording_state",))
        # idempotence: resetting a reset container changes nothing
        TL.prove_same_container("reset/idempotent", R.reset(), R)

    return body


def _custom(L, arrays, objs, cfg, key, **kw):
    import fdtdx.fdtd.fdtd as F

    n0 = len(L.calls)
    res = F.custom_fdtd_forward(arrays, objs, cfg, key, show_progress=False, **kw)
    return res, L.calls[n0:]


def _post_partial(c, tag, res, calls, start_arrays, reset, a, b, cfg, objs, key, rd):
    ok = c.prove(f"{tag}/post:result_is_(step,arrays)", isinstance(res, tuple) and len(res) == 2)
    ok = ok and c.prove(f"{tag}/one_loop", len(calls) == 1)
    if not ok:
        return None
    g = TL.ghost_of(res[1])
    ok = c.prove(f"{tag}/post:result_is_the_loop_state", isinstance(g, TL.Iter) and g is calls[-1]["iter_out"])
    if not ok:
        return None
    c.prove(f"{tag}/post:final_step_counter==end", v_eq(TL.scalar(res[0]), b))
    exp = {"config": cfg, "objects": objs, "key": key, "record_detectors": rd, "record_boundaries": False, "simulate_boundaries": True}
    c.prove(f"{tag}/post:step_function(config,objects,key,record_detectors)", TL.same_sig(g.sig, exp))
    return g


def _as_time(x, as_array):
    return A.asarray(x).astype("int") if as_array else x


def _split(reset_first, rd, as_array):
    """single run [a,b]  vs  [a,m] followed by [m,b] on the returned arrays"""

    def body(c, inp):
        T = sym_int("T", lo=0)
        a = sym_int("a", lo=0)
        m = sym_int("m")
        b = sym_int("b")
        c.assume((a <= m).z)
        c.assume((m <= b).z)
        c.assume((b <= T).z)
        for nm, v in (("T", T), ("a", a), ("m", m), ("b", b)):
            inp.scalar(nm, v)
        inp.note("cfg", {"reset_first": reset_first, "record_detectors": rd, "times_as_arrays": as_array})
        shape, A0 = P5.make_scene(inp, T=T)
        cfg = P5.make_cfg(None)
        objs = scene.make_objects(shape, cfg)
        key = P5._key()
        c.cover("pre")
        tt = lambda x: _as_time(x, as_array)  # noqa: E731
        with P5.sym_total_steps(T), TL.LoopHarness() as L:
            res1, calls1 = _custom(L, A0, objs, cfg, key, reset_container=reset_first, record_detectors=rd, start_time=tt(a), end_time=tt(b))
            g1 = _post_partial(c, "single[a,b]", res1, calls1, A0, reset_first, a, b, cfg, objs, key, rd)
            resA, callsA = _custom(L, A0, objs, cfg, key, reset_container=reset_first, record_detectors=rd, start_time=tt(a), end_time=tt(m))
            gA = _post_partial(c, "part[a,m]", resA, callsA, A0, reset_first, a, m, cfg, objs, key, rd)
            resB, callsB = _custom(L, resA[1], objs, cfg, key, reset_container=False, record_detectors=rd, start_time=tt(m), end_time=tt(b))
            gB = _post_partial(c, "part[m,b]", resB, callsB, resA[1], False, m, b, cfg, objs, key, rd)
        if g1 is None or gA is None or gB is None:
            return
        # the second part continues the first part's state (side condition of the iteration lemma was
        # proved inside the loop rule); the composite is body^(n1+n2) from the first part's origin
        c.prove("split/second_part_continues_first", gB.origin is gA.origin and TL.same_num(gB.t0, gA.t0))
        for tag, g in (("single", g1), ("split", gB)):
            c.prove(f"{tag}/post:first_step_at_counter==start", v_eq(g.t0, a))
            c.prove(f"{tag}/post:number_of_steps==end-start", v_eq(g.n, b - a))
            if reset_first:
                TL.prove_is_reset_of(f"{tag}/post:starts_from_reset_container", g.origin, A0)
            else:
                c.prove(f"{tag}/post:starts_from_the_given_container", g.origin is A0)
        c.prove("split==single/same_final_counter", v_eq(TL.scalar(resB[0]), TL.scalar(res1[0])))
        c.prove("split==single/same_number_of_steps", v_eq(gB.n, g1.n))
        c.prove("split==single/same_first_counter", v_eq(gB.t0, g1.t0))
        c.prove("split==single/same_step_function", TL.same_sig(gB.sig, g1.sig))
        TL.prove_same_container("split==single/same_start_state", gB.origin, g1.origin)

    return body


def _full_vs_partial(c, inp):
    """run_fdtd == custom_fdtd_forward(reset_container=True, record_detectors=True, 0, T); and the
    re-run laws"""
    T = sym_int("T", lo=0)
    inp.scalar("T", T)
    shape, A0 = P5.make_scene(inp, T=T)
    cfg = P5.make_cfg(None)
    objs = scene.make_objects(shape, cfg)
    key = P5._key()
    c.cover("pre")
    with P5.sym_total_steps(T), TL.LoopHarness() as L:
        res_full, calls_full = P5._run(L, A0, objs, cfg, key)
        g_full = P5._post_run(c, "run_fdtd", res_full, calls_full, A0, T, cfg, objs, key)
        res_p, calls_p = _custom(L, A0, objs, cfg, key, reset_container=True, record_detectors=True, start_time=0, end_time=T)
        g_p = _post_partial(c, "custom[0,T]", res_p, calls_p, A0, True, 0, T, cfg, objs, key, True)
        # second run on the arrays returned by the first run / on the same container again
        res_2, calls_2 = P5._run(L, res_full[1], objs, cfg, key)
        g_2 = P5._post_run(c, "run_fdtd(returned arrays)", res_2, calls_2, res_full[1], T, cfg, objs, key)
        res_3, calls_3 = P5._run(L, A0, objs, cfg, key)
        g_3 = P5._post_run(c, "run_fdtd(same container again)", res_3, calls_3, A0, T, cfg, objs, key)
        res_4, calls_4 = _custom(L, res_p[1], objs, cfg, key, reset_container=True, record_detectors=True, start_time=0, end_time=T)
        g_4 = _post_partial(c, "custom[0,T](returned arrays)", res_4, calls_4, res_p[1], True, 0, T, cfg, objs, key, True)
    if g_full is None:
        return
    for tag, g, res in (("custom[0,T]", g_p, res_p), ("rerun_from_returned_arrays", g_2, res_2), ("rerun_same_container", g_3, res_3), ("custom_rerun_from_returned_arrays", g_4, res_4)):
        if g is None:
            continue
        c.prove(f"run_fdtd=={tag}/same_final_counter", v_eq(TL.scalar(res[0]), TL.scalar(res_full[0])))
        c.prove(f"run_fdtd=={tag}/same_first_counter", v_eq(g.t0, g_full.t0))
        c.prove(f"run_fdtd=={tag}/same_number_of_steps", v_eq(g.n, g_full.n))
        c.prove(f"run_fdtd=={tag}/same_step_function", TL.same_sig(g.sig, g_full.sig))
        # the recording buffers are deliberately kept by reset() and are write-only for forward runs
        # (forward/contract: they flow into Recorder.compress only), so they are not part of the comparison
        TL.prove_same_container(f"run_fdtd=={tag}/same_start_state", g.origin, g_full.origin, skip=("recording_state",))


def tasks(tier, seed):
    out = {
        "reset/contract": Task(_reset_contract(False)),
        "reset/contract_dispersive": Task(_reset_contract(True)),
        "runs/full_vs_partial_and_reruns": Task(_full_vs_partial),
        "forward/contract": Task(P5._forward_contract),
    }
    for reset_first in (True, False):
        for rd in (True, False):
            for as_array in (False, True):
                out[f"split/reset{int(reset_first)}_detectors{int(rd)}_{'arraytimes' if as_array else 'inttimes'}"] = Task(_split(reset_first, rd, as_array))
    return out


def replay(key, obligation, witness):
    """real custom_fdtd_forward / run_fdtd / reset under real JAX on a small periodic dipole scene"""
    import jax.numpy as jnp
    import numpy as np

    import fdtdx
    import fdtdx.fdtd.fdtd as F

    sc = (witness or {}).get("scalars", {})
    notes = (witness or {}).get("notes", {}).get("cfg", {}) or {}
    if key.startswith("forward"):
        return P5._replay_forward()
    T = 12
    details = []
    bad = False
    if key.startswith("reset"):
        cfg, oc, arrays, k = P5._real_scene(T, None, dirty=True)
        r = arrays.reset()
        z = max(float(jnp.max(jnp.abs(r.fields.E))), float(jnp.max(jnp.abs(r.fields.H))), float(jnp.max(jnp.abs(r.detector_states["energy"]["energy"]))))
        m = P5._rel(r.inv_permittivities, arrays.inv_permittivities)
        untouched = float(jnp.max(jnp.abs(arrays.fields.E))) > 0
        return (z != 0 or m != 0 or not untouched), f"real reset of a used container: max |time-dependent leaf| = {z}, materials rel. change = {m}, caller container untouched = {untouched}"
    cands = []
    if all(isinstance(sc.get(x), int) for x in ("a", "m", "b", "T")) and 0 <= sc["a"] <= sc["m"] <= sc["b"] <= sc["T"] <= 40:
        cands.append((sc["T"], sc["a"], sc["m"], sc["b"]))
    cands += [(12, 0, 5, 12), (12, 3, 3, 9), (12, 2, 7, 7), (9, 0, 0, 9)]
    rd = bool(notes.get("record_detectors", True))
    rf = bool(notes.get("reset_first", True))
    for T, a, m, b in cands:
        cfg, oc, arrays, k = P5._real_scene(T, None, dirty=True)
        wrap = (lambda x: jnp.asarray(x, dtype=jnp.int32)) if notes.get("times_as_arrays") else (lambda x: x)
        t1, s1 = F.custom_fdtd_forward(arrays, oc, cfg, k, reset_container=rf, record_detectors=rd, start_time=wrap(a), end_time=wrap(b), show_progress=False)
        tA, sA = F.custom_fdtd_forward(arrays, oc, cfg, k, reset_container=rf, record_detectors=rd, start_time=wrap(a), end_time=wrap(m), show_progress=False)
        tB, sB = F.custom_fdtd_forward(sA, oc, cfg, k, reset_container=False, record_detectors=rd, start_time=wrap(m), end_time=wrap(b), show_progress=False)
        d = max(P5._rel(sB.fields.E, s1.fields.E), P5._rel(sB.fields.H, s1.fields.H), P5._rel(sB.detector_states["energy"]["energy"], s1.detector_states["energy"]["energy"]))
        details.append(f"T={T} [a,m,b]=[{a},{m},{b}] reset_first={rf} record_detectors={rd}: end counters {int(t1)}/{int(tB)} (expected {b}), max relative diff split vs single {d:.3e}")
        bad |= int(t1) != b or int(tB) != b or d > 1e-9
        if rf:
            # a zero-step leg with reset_container=True on the used (dirty) container must hand back a reset container
            t0_, s0_ = F.custom_fdtd_forward(arrays, oc, cfg, k, reset_container=True, record_detectors=rd, start_time=wrap(a), end_time=wrap(a), show_progress=False)
            z0 = max(float(jnp.max(jnp.abs(s0_.fields.E))), float(jnp.max(jnp.abs(s0_.fields.H))), float(jnp.max(jnp.abs(s0_.detector_states["energy"]["energy"]))))
            details.append(f"   zero-step reset leg at {a} (record_detectors={rd}) on a used container: max |time-dependent leaf| = {z0:.3e}")
            bad |= z0 != 0
        if a == 0 and b == T and rf and rd:
            tf, sf = fdtdx.run_fdtd(arrays, oc, cfg, k, show_progress=False)
            tf2, sf2 = fdtdx.run_fdtd(sf, oc, cfg, k, show_progress=False)
            d2 = max(P5._rel(sf.fields.E, s1.fields.E), P5._rel(sf.detector_states["energy"]["energy"], s1.detector_states["energy"]["energy"]))
            d3 = max(P5._rel(sf2.fields.E, sf.fields.E), P5._rel(sf2.fields.H, sf.fields.H), P5._rel(sf2.detector_states["energy"]["energy"], sf.detector_states["energy"]["energy"]))
            details.append(f"   run_fdtd vs custom[0,T]: counters {int(tf)}/{int(t1)}, rel diff {d2:.3e}; re-run from returned arrays: counters {int(tf2)}, rel diff {d3:.3e}")
            bad |= int(tf) != T or int(tf2) != T or d2 > 1e-9 or d3 > 1e-9
        if bad:
            break
    return bad, "\n".join(details)
