"""C30  Recorded boundary data decompresses to what was recorded.

Contract of Recorder.decompress(compress-history) for the pipelines
[LinearReconstructEveryK(k, start)] and [DtypeConversion, LinearReconstructEveryK]:

    for every t >= start:  decompress(t) == v[t]                      if t is a saved step
                           decompress(t) == lerp(v[p], v[n], (t-p)/(n-p))  otherwise,
    where p < t < n are the enclosing saved steps, saved steps = {start, start+k, ...} U {T-1}.

The recorded history v[0..T-1] is fully SYMBOLIC (arbitrary values and array shape): the obligations
hold for all value histories.  The schedule parameters (T, k, start) fix Python-level control flow
(list lengths, table construction) and are ENUMERATED: exhaustively over the property's own domain
T <= 40, k <= 8, all start steps in the thorough tier, and a stated subset in the quick tier.
"""

from __future__ import annotations

import itertools
import random

from vc import array as A
from vc.array import SymArray
from vc.core import ctx
from vc.harness import Task
from vc.obl import prove_arrays_equal, sym_int

ID = "C30"
LEVEL = "proof"
TECHNIQUE = "symbolic execution of the real Recorder.compress/decompress over a symbolic value history; schedule parameters enumerated over the property's stated domain; z3"
MODULES = ["fdtdx.interfaces.recorder", "fdtdx.interfaces.time_filter", "fdtdx.interfaces.modules", "fdtdx.core.misc"]
FILES = ["src/fdtdx/interfaces/recorder.py", "src/fdtdx/interfaces/time_filter.py", "src/fdtdx/interfaces/modules.py", "src/fdtdx/core/misc.py"]
FUNCTIONS = [
    "fdtdx.interfaces.recorder.Recorder.compress",
    "fdtdx.interfaces.recorder.Recorder.decompress",
    "fdtdx.interfaces.time_filter.LinearReconstructEveryK.init_shapes (run concretely per schedule; its tables are checked against the saved-step spec)",
    "fdtdx.interfaces.time_filter.LinearReconstructEveryK.time_to_array_index/indices_to_decompress/compress/decompress",
    "fdtdx.interfaces.modules.DtypeConversion.compress/decompress",
    "fdtdx.core.misc.index_1d_array",
]
STUBS = ["check_shape_dtype (shape/dtype bookkeeping, not part of the property)", "init_recording_state (zero-initialised buffers of the documented shape)"]
ASSUMPTIONS = [
    "dtype conversion is the identity on real numbers: 'widening conversions round-trip exactly' is assumed, not proved (IEEE-754 not modelled)",
    "schedule space enumerated: quick tier = all (T,k,start) with T <= 9 plus a seeded sample up to T <= 40, k <= 8; thorough tier = the full stated domain",
]
MIN_OBLIGATIONS = {"quick": 300, "thorough": 3000}
LEVEL_TEXT = "Deductive proof over all recorded value histories (symbolic values and array shape) of the decompress contract for every enumerated schedule (T,k,start); the schedule space is the finite domain the property itself states and is covered exhaustively in the thorough tier"
LEVEL_NOTE = "real arithmetic; dtype casts identity; quick tier covers a stated subset of the schedule space"


def _saved_steps(T, k, s):
    S = list(range(s, T, k))
    if S[-1] != T - 1:
        S.append(T - 1)
    return S


def _pipeline(T, k, s, with_dtype):
    def body(c, inp):
        import jax
        import jax.numpy as real_jnp

        import fdtdx.interfaces.recorder as R
        from fdtdx.interfaces.modules import DtypeConversion
        from fdtdx.interfaces.state import RecordingState
        from fdtdx.interfaces.time_filter import LinearReconstructEveryK

        n = sym_int("n", lo=1)
        inp.scalar("n", n)
        inp.note("schedule", {"T": T, "k": k, "start": s, "with_dtype": with_dtype})
        mods = ([DtypeConversion(dtype=real_jnp.float64)] if with_dtype else []) + [LinearReconstructEveryK(k=k, start_recording_after=s)]
        rec = R.Recorder(modules=mods)
        # module tables are built by the REAL init code on concrete schedule parameters
        shapes = {"f": jax.ShapeDtypeStruct((2,), real_jnp.float64)}
        saved = (R.jnp, R.jax)
        import fdtdx.interfaces.time_filter as TF

        saved_tf = (TF.jnp, TF.jax)
        R.jnp, R.jax, TF.jnp, TF.jax = real_jnp, jax, real_jnp, jax
        try:
            rec, _ = rec.init_state(shapes, T, backend="cpu")
        finally:
            R.jnp, R.jax = saved
            TF.jnp, TF.jax = saved_tf
        tf = rec.modules[-1]
        S = _saved_steps(T, k, s)
        # table obligations (concrete): saved steps and the time -> array index map
        c.prove("init_shapes/post:save_time_steps", [int(x) for x in tf._save_time_steps] == S)
        tab = [int(x) for x in tf._time_to_arr_idx]
        c.prove("init_shapes/post:time_to_arr_idx", all(tab[t] == sum(1 for u in S if u <= t) - 1 for t in range(s, T)))
        c.prove("init_shapes/post:array_size", int(rec._latent_array_size) == len(S))
        # re-house the tables as shim arrays
        new_tf = tf.aset("_save_time_steps", A.asarray([int(x) for x in tf._save_time_steps])).aset("_time_to_arr_idx", A.asarray(tab))
        rec = rec.aset("modules", [*rec.modules[:-1], new_tf])
        v = A.fresh_array("v", (T, n))
        inp.array("v", v)
        state = RecordingState(data={"f": A.zeros((len(S), n))}, state={})
        key = jax.random.PRNGKey(0)
        for t in range(T):
            state = rec.compress({"f": v[t]}, state, A.asarray(t), key)
        for t in range(s, T):
            out, _ = rec.decompress(state, A.asarray(t), key)
            if t in S:
                spec = v[t]
            else:
                p = max(u for u in S if u < t)
                q = min(u for u in S if u > t)
                from fractions import Fraction

                spec = v[p] + (v[q] - v[p]) * Fraction(t - p, q - p)
            prove_arrays_equal(f"decompress(t={t})", out["f"], spec)

    return body


def _lenient_check(*a, **k):
    return None


def tasks(tier, seed):
    combos = []
    if tier == "thorough":
        for T in range(1, 41):
            for k in range(1, 9):
                for s in range(0, T):
                    combos.append((T, k, s))
    else:
        for T in range(1, 10):
            for k in range(1, 9):
                for s in range(0, T):
                    combos.append((T, k, s))
        rnd = random.Random(seed)
        extra = [(T, k, s) for T in range(10, 41) for k in range(1, 9) for s in range(0, T)]
        combos += rnd.sample(extra, 60)
        combos += [(40, 8, 0), (40, 8, 39), (40, 1, 17), (40, 7, 5), (33, 8, 1)]
    out = {}
    # group schedules into tasks of ~40 to amortise process start-up
    combos = sorted(set(combos))
    chunk = 40 if tier == "quick" else 120
    for i in range(0, len(combos), chunk):
        group = combos[i : i + chunk]

        def body(c, inp, group=group, i=i):
            for j, (T, k, s) in enumerate(group):
                _pipeline(T, k, s, with_dtype=(j % 5 == 0))(c, inp)

        # every schedule is its own sub-session inside the task: obligations are prefixed
        def body2(c, inp, group=group):
            for j, (T, k, s) in enumerate(group):
                pre = f"T{T}k{k}s{s}:"
                orig = c.prove

                def pr(name, goal, *a, _o=orig, _p=pre, **kw):
                    return _o(_p + name, goal, *a, **kw)

                c.prove = pr
                try:
                    _pipeline(T, k, s, with_dtype=(j % 5 == 0))(c, inp)
                finally:
                    c.prove = orig

        out[f"schedules/{i // chunk:03d}"] = Task(body2, extra_patch={"fdtdx.interfaces.recorder": {"check_shape_dtype": _lenient_check}})
    return out


def replay(key, obligation, witness):
    """real Recorder under real JAX on the failing schedule with a quadratic value history"""
    import re

    import jax
    import jax.numpy as jnp
    import numpy as np

    from fdtdx.interfaces.recorder import Recorder
    from fdtdx.interfaces.time_filter import LinearReconstructEveryK

    m = re.match(r"T(\d+)k(\d+)s(\d+):decompress\(t=(\d+)\)", obligation)
    if not m:
        return False, "obligation does not name a schedule"
    T, k, s, t = map(int, m.groups())
    rec = Recorder(modules=[LinearReconstructEveryK(k=k, start_recording_after=s)])
    rec, state = rec.init_state({"f": jax.ShapeDtypeStruct((1,), jnp.float64)}, T, backend="cpu")
    vals = [float(u * u) for u in range(T)]
    key_ = jax.random.PRNGKey(0)
    for u in range(T):
        state = rec.compress({"f": jnp.asarray([vals[u]])}, state, jnp.asarray(u, dtype=jnp.int32), key_)
    out, _ = rec.decompress(state, jnp.asarray(t, dtype=jnp.int32), key_)
    S = _saved_steps(T, k, s)
    if t in S:
        exp = vals[t]
    else:
        p = max(u for u in S if u < t)
        q = min(u for u in S if u > t)
        exp = vals[p] + (vals[q] - vals[p]) * (t - p) / (q - p)
    got = float(np.asarray(out["f"])[0])
    return abs(got - exp) > 1e-9, f"T={T} k={k} start={s} t={t}, history v[u]=u^2: real decompress -> {got}, contract value {exp}"
