"""C43  Shapes are rasterised by cell-centre inclusion.

Contracts (top-level postconditions from the property text), for an object placed on the box
[lo_a, hi_a) of a volume with Nx,Ny,Nz cells, all of it SYMBOLIC, on three kinds of grid:

  Sphere.get_voxel_mask_for_shape()
      ensures  shape == grid_shape  and for every cell (i,j,k) of the box
               mask[i,j,k]  <=>  sum_a ((P_a - C_a) / r_a)^2 < 1
  Cylinder.get_voxel_mask_for_shape()          (axis in {0,1,2}, transverse axes h < v)
      ensures  the mask broadcasts to grid_shape and for every cell
               mask[cell]   <=>  ((P_h - C_h)/r)^2 + ((P_v - C_v)/r)^2 < 1
  ExtrudedPolygon.get_voxel_mask_for_shape()   (axis in {0,1,2})
      ensures  shape == grid_shape, and with the inside test of matplotlib replaced by an
               uninterpreted predicate inside(x, y) over a polygon:
               (a) the polygon handed to the test is  V + (C - o)  (the user's origin-centred vertex
                   list moved to the box centre, expressed in a frame with origin o),
               (b) the points handed to the test are exactly the cell centres P - o of the
                   cross-section, in (horizontal, vertical) order, row-major over (i_h, i_v),
               (c) mask[cell] <=> inside(P_h(i_h) - o_h, P_v(i_v) - o_v): the 2-D result is extruded
                   unchanged along the axis.

where P_a = (e_a[lo_a+i] + e_a[lo_a+i+1]) / 2 is the ABSOLUTE physical centre of the cell, C_a =
(e_a[lo_a] + e_a[hi_a]) / 2 the absolute centre of the box and e_a the grid edges (non-uniform: arbitrary
strictly increasing; uniform: e0 + k*s).  The code works in box-local coordinates; the spec does not.
"""

from __future__ import annotations

import z3

from vc import array as A
from vc import scene
from vc.array import SymArray
from vc.core import SymBool, ctx, to_z3_real
from vc.harness import Task
from vc.obl import prove_arrays_equal, prove_pointwise, sym_int, sym_real

ID = "C43"
LEVEL = "proof"
TECHNIQUE = "symbolic execution of the real get_voxel_mask_for_shape methods on symbolic boxes/radii/grids; pointwise iff-obligations against the analytic inclusion predicate in absolute coordinates (z3 nonlinear real arithmetic); polygon inside test abstracted by an uninterpreted predicate"
MODULES = [
    "fdtdx.objects.static_material.sphere",
    "fdtdx.objects.static_material.cylinder",
    "fdtdx.objects.static_material.polygon",
    "fdtdx.objects.static_material.static",
    "fdtdx.objects.object",
    "fdtdx.core.grid",
    "fdtdx.core.axis",
    "fdtdx.config",
]
FILES = [
    "src/fdtdx/objects/static_material/sphere.py",
    "src/fdtdx/objects/static_material/cylinder.py",
    "src/fdtdx/objects/static_material/polygon.py",
    "src/fdtdx/core/grid.py",
    "src/fdtdx/core/axis.py",
    "src/fdtdx/objects/object.py",
]
FUNCTIONS = [
    "fdtdx.objects.static_material.sphere.Sphere.get_voxel_mask_for_shape",
    "fdtdx.objects.static_material.cylinder.Cylinder.get_voxel_mask_for_shape",
    "fdtdx.objects.static_material.polygon.ExtrudedPolygon.get_voxel_mask_for_shape",
    "fdtdx.core.grid.polygon_to_mask",
    "fdtdx.core.grid.polygon_to_mask_at_points",
]
INLINED = [
    "fdtdx.objects.object.SimulationObject.real_shape / grid_shape / grid_slice_tuple",
    "fdtdx.core.grid.RectilinearGrid.slice_extent / axis_extent",
    "fdtdx.core.axis.get_transverse_axes",
    "fdtdx.config.SimulationConfig.resolved_grid / uniform_spacing",
    "Sphere/Cylinder/ExtrudedPolygon.__post_init__ (run on the symbolic radii/vertices)",
]
STUBS = [
    "matplotlib.path.Path(vertices).contains_points(points): uninterpreted predicate inside(x, y), applied to each handed-over point; the vertices handed to Path are recorded and checked",
    "RectilinearGrid.edges (SymGrid stand-in: arbitrary edges with widths >= smin > 0, or e0 + k*s on the uniform variant)",
    "numpy in polygon.py / grid.py is rebound to the symbolic jnp shim (same operator semantics: asarray, array, meshgrid(ij), column_stack, ravel/reshape, arange)",
]
ASSUMPTIONS = [
    "boxes are well-formed: 0 <= lo < hi <= N on every axis; radii > 0; spacing / cell widths > 0",
    "the point-in-polygon test itself (matplotlib) is external: only WHICH polygon and WHICH points are handed to it, and what is done with its answer, is verified",
    "np.arange(start, stop, step) has ceil((stop-start)/step) elements over the reals (floating-point rounding of the length is not modelled); used on the unresolved-UniformGrid path of ExtrudedPolygon only",
    "polygon vertex count fixed to 4 symbolic vertices in the quick tier, 3/4/6 in the thorough tier (the code treats rows uniformly: one broadcast addition)",
    "grid kinds: 'nonuniform' and 'uniform' are realised RectilinearGrid stand-ins (what place_objects attaches), 'policy' is an unresolved UniformGrid (the legacy fallback branch `resolved_grid is None`)",
]
MIN_OBLIGATIONS = {"quick": 300, "thorough": 500}
LEVEL_TEXT = "Deductive proof for all volume shapes, box positions, radii, spacings / edge arrays (symbolic) that every cell of the mask is set iff its physical centre lies strictly inside the ellipsoid / cylinder, and that the polygon path hands exactly the cell centres (h, v order) and the re-centred vertices to the inside test and extrudes its answer unchanged; finite classes (axis, which per-axis radii are given, grid kind) enumerated exhaustively"
LEVEL_NOTE = "real arithmetic; matplotlib's inside test uninterpreted; 4-vertex polygons; np.arange length over the reals"

GRID_KINDS = ("nonuniform", "uniform", "policy")
_REC = {}


# ---------------------------------------------------------------------------------------
# scene
# ---------------------------------------------------------------------------------------


def _scene(kind, inp):
    """symbolic volume, grid of the given kind and a well-formed box; returns
    (cfg, shape, box, edge) with edge(axis, k) = absolute physical coordinate of grid edge k."""
    shape = scene.sym_shape()
    for n, v in zip("xyz", shape):
        inp.scalar(f"N{n}", v)
    if kind == "nonuniform":
        cfg = scene.make_config(nonuniform_shape=shape)
        g = cfg.grid
        for ax in range(3):
            inp.array(f"w{'xyz'[ax]}", g.cell_widths(ax), default=1.0)

        def edge(a, k):
            return g.edges(a).at_index((A._raw_index(k),))

    elif kind == "uniform":
        cfg = scene.make_config()
        s = sym_real("spacing_u", lo_strict=0)
        inp.scalar("spacing", s)
        g = scene.SymGridClass()(shape, uniform=True, spacing=s)
        cfg.__dict__["grid"] = g

        def edge(a, k):
            return g.edges(a).at_index((A._raw_index(k),))

    elif kind == "policy":
        cfg = scene.make_config()
        s = cfg.grid.spacing
        inp.scalar("spacing", s)

        def edge(a, k):
            return k * s

    else:
        raise ValueError(kind)
    box = []
    for ax in range(3):
        lo = sym_int(f"lo{ax}", lo=0)
        hi = sym_int(f"hi{ax}")
        ctx().assume((lo < hi).z)
        ctx().assume((hi <= shape[ax]).z)
        inp.scalar(f"lo{ax}", lo)
        inp.scalar(f"hi{ax}", hi)
        box.append((lo, hi))
    inp.note("grid_kind", kind)
    return cfg, shape, tuple(box), edge


def _centre(edge, box, a, i):
    lo, _ = box[a]
    return (edge(a, lo + i) + edge(a, lo + i + 1)) / 2


def _box_centre(edge, box, a):
    lo, hi = box[a]
    return (edge(a, lo) + edge(a, hi)) / 2


def _materials():
    import fdtdx

    return {"core": fdtdx.Material(permittivity=2.0), "clad": fdtdx.Material(permittivity=1.5)}


def _prove_shape(c, name, mask, grid_shape, unit_axis=None):
    ok = c.prove(f"{name}/rank3", mask.ndim == 3)
    if mask.ndim != 3:
        return False
    for d in range(3):
        if unit_axis is not None and d == unit_axis:
            ok &= c.prove(f"{name}/shape[{d}]in(1,n)", A._vor(A.v_eq(mask.shape[d], 1), A.v_eq(mask.shape[d], grid_shape[d])))
        else:
            ok &= c.prove(f"{name}/shape[{d}]", A.v_eq(mask.shape[d], grid_shape[d]))
    return ok


# ---------------------------------------------------------------------------------------
# sphere / ellipsoid
# ---------------------------------------------------------------------------------------


def _sphere(kind, given):
    """given: subset of 'xyz' for which a per-axis radius is supplied (the others use `radius`)"""

    def body(c, inp):
        from fdtdx.objects.static_material.sphere import Sphere

        cfg, shape, box, edge = _scene(kind, inp)
        r0 = sym_real("radius", lo_strict=0)
        inp.scalar("radius", r0)
        kw = {}
        radii = []
        for a, n in enumerate("xyz"):
            if n in given:
                ra = sym_real(f"radius_{n}", lo_strict=0)
                inp.scalar(f"radius_{n}", ra)
                kw[f"radius_{n}"] = ra
                radii.append(ra)
            else:
                radii.append(r0)
        inp.note("given", given)
        obj = Sphere(name=f"sphere_{kind}_{given}", materials=_materials(), material_name="core", radius=r0, **kw)
        obj = scene._place(obj, box, cfg)
        c.cover("pre")
        mask = obj.get_voxel_mask_for_shape()
        pre = f"sphere[{given or '-'}]"
        if not _prove_shape(c, f"{pre}/post", mask, obj.grid_shape):
            return
        c.prove(f"{pre}/post:bool", mask.kind == "bool")

        def pred(v, idx):
            tot = 0
            for a in range(3):
                d = (_centre(edge, box, a, idx[a]) - _box_centre(edge, box, a)) / radii[a]
                tot = tot + d * d
            return A.v_eq(v, tot < 1)

        prove_pointwise(f"{pre}/post:cell_set_iff_centre_strictly_inside", mask, pred)

    return body


# ---------------------------------------------------------------------------------------
# cylinder
# ---------------------------------------------------------------------------------------


def _cylinder(kind, axis):
    def body(c, inp):
        from fdtdx.objects.static_material.cylinder import Cylinder

        cfg, shape, box, edge = _scene(kind, inp)
        r = sym_real("radius", lo_strict=0)
        inp.scalar("radius", r)
        inp.note("axis", axis)
        obj = Cylinder(name=f"cyl_{kind}_{axis}", materials=_materials(), material_name="core", radius=r, axis=axis)
        obj = scene._place(obj, box, cfg)
        c.cover("pre")
        mask = obj.get_voxel_mask_for_shape()
        pre = f"cylinder[axis={axis}]"
        if not _prove_shape(c, f"{pre}/post", mask, obj.grid_shape, unit_axis=axis):
            return
        c.prove(f"{pre}/post:bool", mask.kind == "bool")
        full = A.broadcast_to(mask, obj.grid_shape)
        h, v = [a for a in range(3) if a != axis]

        def pred(val, idx):
            tot = 0
            for a in (h, v):
                d = (_centre(edge, box, a, idx[a]) - _box_centre(edge, box, a)) / r
                tot = tot + d * d
            return A.v_eq(val, tot < 1)

        prove_pointwise(f"{pre}/post:cell_set_iff_centre_strictly_inside", full, pred)

    return body


# ---------------------------------------------------------------------------------------
# extruded polygon
# ---------------------------------------------------------------------------------------

_INSIDE = [None]


def _inside(px, py):
    if _INSIDE[0] is None:
        _INSIDE[0] = z3.Function("inside_polygon", z3.RealSort(), z3.RealSort(), z3.BoolSort())
    from vc.core import _num_parts

    return SymBool(_INSIDE[0](to_z3_real(_num_parts(px)[0]), to_z3_real(_num_parts(py)[0])))


class _StubPath:
    """stands for matplotlib.path.Path: records what it is handed; the inside test is uninterpreted"""

    def __init__(self, vertices, *a, **k):
        self.vertices = A.asarray(vertices)
        _REC.setdefault("vertices", []).append(self.vertices)

    def contains_points(self, points, *a, **k):
        pts = A.asarray(points)
        _REC.setdefault("points", []).append(pts)
        if pts.ndim != 2 or pts.shape[1] != 2:
            raise ValueError("contains_points expects an (N, 2) array")
        return SymArray((pts.shape[0],), lambda idx: _inside(pts.at_index((idx[0], 0)), pts.at_index((idx[0], 1))), "bool")


def _polygon(kind, axis, nverts=4):
    def body(c, inp):
        from fdtdx.objects.static_material.polygon import ExtrudedPolygon

        _REC.clear()
        cfg, shape, box, edge = _scene(kind, inp)
        V = A.fresh_array("V", (nverts, 2))
        inp.array("V", V)
        inp.note("axis", axis)
        obj = ExtrudedPolygon(name=f"poly_{kind}_{axis}", materials=_materials(), material_name="core", axis=axis, vertices=V)
        obj = scene._place(obj, box, cfg)
        c.cover("pre")
        mask = obj.get_voxel_mask_for_shape()
        pre = f"polygon[axis={axis}]"
        if not _prove_shape(c, f"{pre}/post", mask, obj.grid_shape):
            return
        c.prove(f"{pre}/post:bool", mask.kind == "bool")
        h, v = [a for a in range(3) if a != axis]
        ok = c.prove(f"{pre}/call:inside_test_used_once", len(_REC.get("vertices", [])) == 1 and len(_REC.get("points", [])) == 1)
        if not ok:
            return
        # frame origin o: the lower corner of the box (absolute coordinates)
        o = {a: edge(a, box[a][0]) for a in (h, v)}
        shift = [_box_centre(edge, box, h) - o[h], _box_centre(edge, box, v) - o[v]]
        passed = _REC["vertices"][0]
        prove_arrays_equal(f"{pre}/call:polygon=vertices_moved_to_box_centre", passed, SymArray((nverts, 2), lambda idx: V.at_index(idx) + shift[idx[1]], "real"))
        # (b) the handed-over points, un-flattened row-major over (i_h, i_v)
        pts = _REC["points"][0]
        nh, nv = obj.grid_shape[h], obj.grid_shape[v]
        # (the mask's own cross-section dims are syntactically those of the meshgrid; they were proved
        # equal to the grid shape above)
        mh, mv = mask.shape[h], mask.shape[v]
        if c.prove(f"{pre}/call:number_of_points", A.v_eq(pts.shape[0], mh * mv)):
            P0 = A.reshape(pts[:, 0], (mh, mv))
            P1 = A.reshape(pts[:, 1], (mh, mv))
            prove_pointwise(f"{pre}/call:points[:,0]=horizontal_cell_centres", P0, lambda val, idx: A.v_eq(val, _centre(edge, box, h, idx[0]) - o[h]))
            prove_pointwise(f"{pre}/call:points[:,1]=vertical_cell_centres", P1, lambda val, idx: A.v_eq(val, _centre(edge, box, v, idx[1]) - o[v]))

        # (c) the answer of the inside test for the cell's cross-section centre, extruded unchanged
        def pred(val, idx):
            return A.v_eq(val, _inside(_centre(edge, box, h, idx[h]) - o[h], _centre(edge, box, v, idx[v]) - o[v]))

        prove_pointwise(f"{pre}/post:cell=inside(cross_section_centre)_extruded", mask, pred)

    return body


def _np_patch():
    from vc.shims import make_jnp_cached

    np_shim = make_jnp_cached()
    return {
        "fdtdx.core.grid": {"np": np_shim, "Path": _StubPath},
        "fdtdx.objects.static_material.polygon": {"np": np_shim},
    }


# ---------------------------------------------------------------------------------------
# tasks
# ---------------------------------------------------------------------------------------

SPHERE_GIVEN = ["", "x", "y", "z", "xy", "xz", "yz", "xyz"]


def tasks(tier, seed):
    out = {}
    for kind in GRID_KINDS:
        for given in SPHERE_GIVEN:
            out[f"sphere/{kind}/{given or 'none'}"] = Task(_sphere(kind, given))
        for axis in range(3):
            out[f"cylinder/{kind}/axis{axis}"] = Task(_cylinder(kind, axis))
            out[f"polygon/{kind}/axis{axis}"] = Task(_polygon(kind, axis), extra_patch=_np_patch())
            if tier == "thorough":
                for nv in (3, 6):
                    out[f"polygon{nv}/{kind}/axis{axis}"] = Task(_polygon(kind, axis, nv), extra_patch=_np_patch())
    return out


# ---------------------------------------------------------------------------------------
# replay on the real code under real JAX
# ---------------------------------------------------------------------------------------


def _real_scene(what, kind, variant, N, box, s, widths, radius, per_axis, V):
    """build the REAL object on a concrete scene, return (mismatch?, detail)"""
    import jax.numpy as jnp
    import numpy as np

    import fdtdx
    from fdtdx.config import SimulationConfig
    from fdtdx.core.grid import RectilinearGrid, UniformGrid

    if kind == "nonuniform":
        edges = [np.concatenate([[0.0], np.cumsum(widths[a])]) for a in range(3)]
        grid = RectilinearGrid(x_edges=jnp.asarray(edges[0]), y_edges=jnp.asarray(edges[1]), z_edges=jnp.asarray(edges[2]))
    elif kind == "uniform":
        edges = [s * np.arange(n + 1) for n in N]
        grid = RectilinearGrid(x_edges=jnp.asarray(edges[0]), y_edges=jnp.asarray(edges[1]), z_edges=jnp.asarray(edges[2]))
    else:
        edges = [s * np.arange(n + 1) for n in N]
        grid = UniformGrid(spacing=s)
    cfg = SimulationConfig(time=1e-15, grid=grid, backend="cpu", dtype=jnp.float64)
    mats = {"core": fdtdx.Material(permittivity=2.0), "clad": fdtdx.Material(permittivity=1.5)}
    cen = [0.5 * (edges[a][box[a][0] : box[a][1]] + edges[a][box[a][0] + 1 : box[a][1] + 1]) for a in range(3)]
    bc = [0.5 * (edges[a][box[a][0]] + edges[a][box[a][1]]) for a in range(3)]
    gshape = tuple(hi - lo for lo, hi in box)
    where = f"{what}/{kind}/{variant}: volume {list(N)}, box {list(box)}, spacing {s if kind != 'nonuniform' else 'non-uniform'}"

    def term(a, r):
        return (((cen[a] - bc[a]) / r) ** 2).reshape([-1 if d == a else 1 for d in range(3)])

    if what == "sphere":
        kw = {f"radius_{n}": per_axis[n] for n in variant}
        radii = [kw.get(f"radius_{n}", radius) for n in "xyz"]
        obj = fdtdx.Sphere(name="replay_sphere", materials=mats, material_name="core", radius=radius, **kw)
        obj = scene._place(obj, box, cfg)
        got = np.asarray(obj.get_voxel_mask_for_shape())
        val = np.broadcast_to(sum(term(a, radii[a]) for a in range(3)), gshape)
        where += f", radii {radii}"
    elif what == "cylinder":
        axis = int(variant)
        obj = fdtdx.Cylinder(name="replay_cyl", materials=mats, material_name="core", radius=radius, axis=axis)
        obj = scene._place(obj, box, cfg)
        got = np.asarray(obj.get_voxel_mask_for_shape())
        val = np.broadcast_to(sum(term(a, radius) for a in range(3) if a != axis), gshape)
        where += f", radius {radius}, axis {axis}"
    else:
        from matplotlib.path import Path

        axis = int(variant)
        h, v = [a for a in range(3) if a != axis]
        obj = fdtdx.ExtrudedPolygon(name="replay_poly", materials=mats, material_name="core", axis=axis, vertices=V)
        obj = scene._place(obj, box, cfg)
        got = np.asarray(obj.get_voxel_mask_for_shape())
        if got.shape != gshape:
            return True, f"{where}: real ExtrudedPolygon mask has shape {got.shape}, grid shape {gshape}"
        X, Y = np.meshgrid(cen[h] - bc[h], cen[v] - bc[v], indexing="ij")
        exp2 = Path(V).contains_points(np.column_stack((X.ravel(), Y.ravel()))).reshape(X.shape)
        exp = np.broadcast_to(np.expand_dims(exp2, axis), gshape)
        # cell centres (numerically) on a polygon edge are not judged: matplotlib's answer there is
        # a rounding artefact and not translation invariant
        pts = np.stack((X, Y), axis=-1)
        dist = np.full(X.shape, np.inf)
        for m in range(len(V)):
            a0, b0 = V[m], V[(m + 1) % len(V)]
            ab = b0 - a0
            t = np.clip(((pts - a0) @ ab) / max(float(ab @ ab), 1e-300), 0.0, 1.0)
            dist = np.minimum(dist, np.linalg.norm(pts - (a0 + t[..., None] * ab), axis=-1))
        scale_len = max(float(np.abs(V).max()), 1e-300)
        judged = np.broadcast_to(np.expand_dims(dist > 1e-9 * scale_len, axis), gshape)
        bad = np.argwhere((got != exp) & judged)
        return len(bad) > 0, f"{where}, vertices {V.tolist()}: real mask differs from Path(V).contains_points(cell centre - box centre) at {len(bad)} of {int(judged.sum())} judged cells" + (f", first {bad[0].tolist()}" if len(bad) else "")
    try:
        got = np.broadcast_to(got, gshape)
    except ValueError:
        return True, f"{where}: real mask of shape {got.shape} does not broadcast to the grid shape {gshape}"
    exp = val < 1
    # cells numerically on the surface are judged only when the float value is exactly 1 (then the
    # code, which performs the same float operations, sees exactly 1 as well)
    judged = (np.abs(val - 1) > 1e-9) | (val == 1.0)
    bad = np.argwhere((got != exp) & judged)
    detail = f"{where}: real mask differs from the analytic predicate at {len(bad)} of {int(judged.sum())} judged cells" + (f", first {bad[0].tolist()} (sum of squares {val[tuple(bad[0])]:.17g}, mask {bool(got[tuple(bad[0])])})" if len(bad) else "")
    return len(bad) > 0, detail


def _probe_scenes(kind):
    """a few fixed concrete scenes tried when the solver's witness sits numerically on the surface"""
    import numpy as np

    rng = np.random.default_rng(7)
    out = []
    # cell centres exactly on the surface: 3^3 box, spacing 1, radius 1 (offsets -1, 0, 1)
    out.append(dict(N=(3, 3, 3), box=((0, 3), (0, 3), (0, 3)), s=1.0, radius=1.0, per_axis={"x": 1.0, "y": 1.0, "z": 1.0}))
    out.append(dict(N=(9, 8, 7), box=((1, 8), (0, 6), (2, 7)), s=0.5, radius=1.25, per_axis={"x": 1.5, "y": 0.75, "z": 1.0}))
    out.append(dict(N=(6, 9, 5), box=((0, 6), (2, 9), (0, 4)), s=2.0, radius=5.0, per_axis={"x": 3.0, "y": 6.5, "z": 2.5}))
    for sc in out:
        sc["widths"] = [rng.uniform(0.5, 1.5, size=n) * sc["s"] for n in sc["N"]] if kind == "nonuniform" else None
    if kind == "nonuniform":
        out[0]["widths"] = [np.ones(3), np.ones(3), np.ones(3)]
    return out


def replay(key, obligation, witness):
    """real object on the witness box/grid/radii: compare the real mask with the analytic predicate
    evaluated in float64 at the absolute cell centres; if the witness is numerically degenerate
    (generic cell exactly on the surface) a few fixed scenes of the same configuration class are tried."""
    import numpy as np

    from vc.harness import witness_arrays_to_numpy

    sc = (witness or {}).get("scalars", {})
    parts = key.split("/")
    what, kind = parts[0].rstrip("0123456789"), parts[1]
    variant = parts[2]
    if what == "sphere":
        variant = "" if variant == "none" else variant
    else:
        variant = variant[-1]
    wa = witness_arrays_to_numpy(witness or {})

    def fl(name, default=1.0):
        v = sc.get(name, default)
        return float(v) if isinstance(v, (int, float)) and not isinstance(v, bool) and v > 0 else default

    def poly_vertices(N, box, s, widths):
        V = wa.get("V")
        ext = []
        for a in range(3):
            if widths is not None:
                ext.append(float(np.sum(widths[a][box[a][0] : box[a][1]])))
            else:
                ext.append(s * (box[a][1] - box[a][0]))
        h, v = [a for a in range(3) if a != int(variant)]
        if V is None or V.ndim != 2 or V.shape[1] != 2 or V.shape[0] < 3 or np.ptp(V[:, 0]) == 0 or np.ptp(V[:, 1]) == 0:
            V = np.array([[-0.31, -0.43], [0.47, -0.36], [0.23, 0.41], [-0.42, 0.27]]) * np.array([ext[h], ext[v]])
        return V

    attempts = []
    try:
        N = [max(1, int(sc[f"N{a}"])) for a in "xyz"]
        box = [(int(sc[f"lo{a}"]), int(sc[f"hi{a}"])) for a in range(3)]
        if all(0 <= lo < hi <= n for (lo, hi), n in zip(box, N)) and N[0] * N[1] * N[2] <= 2_000_000:
            widths = None
            if kind == "nonuniform":
                widths = []
                for ax, n in enumerate(N):
                    w = wa.get(f"w{'xyz'[ax]}")
                    if w is None or w.shape != (n,) or np.any(w <= 0):
                        w = np.linspace(1.0, 2.0, n)
                    widths.append(w)
            attempts.append(dict(N=tuple(N), box=tuple(box), s=fl("spacing"), widths=widths, radius=fl("radius"), per_axis={n: fl(f"radius_{n}") for n in "xyz"}))
    except Exception:  # noqa: BLE001
        pass
    attempts += _probe_scenes(kind)
    details = []
    for i, a in enumerate(attempts):
        V = poly_vertices(a["N"], a["box"], a["s"], a["widths"]) if what == "polygon" else None
        bad, detail = _real_scene(what, kind, variant, a["N"], a["box"], a["s"], a["widths"], a["radius"], a["per_axis"], V)
        if bad:
            return True, detail
        details.append(detail)
    return False, "no mismatch on the witness scene nor on the probe scenes: " + " | ".join(details[:2])
