"""C15  Detectors record the co-located fields of their region.

Contract of update_detector_states (+ interpolate_fields, pad_fields_with_symmetry_mirror,
FieldDetector.update): at an active step the detector's state row idx[t] equals, for every cell of
its region [s,e)^3 and every requested component, the co-location spec (spec.yee.Colocation) of the
full-domain E field and of (H_prev + H)/2 with the boundary-appropriate halo; rows other than
idx[t] are unchanged; with exact_interpolation=False the raw components are recorded.  The detector
box is SYMBOLIC (0 <= s < e <= N per axis): the real code's `is_interior` test forks the run, so the
interior fast path and the edge fallback are both proved equal to the same spec, for every
edge/corner contact.
"""

from __future__ import annotations

from props import common as K
from spec.yee import Colocation, Yee
from vc import array as A
from vc import scene
from vc.array import SymArray
from vc.core import SymNum, ctx
from vc.harness import Task
from vc.obl import prove_arrays_equal, sym_int

ID = "C15"
LEVEL = "proof"
TECHNIQUE = "symbolic execution of the real update_detector_states/interpolate_fields with a symbolic detector box (both code paths via forking); pointwise equality with the co-location spec by z3 / ite-split ring normal form"
MODULES = K.SOLVER_MODULES + ["fdtdx.objects.detectors.field", "fdtdx.core.physics.symmetry"]
FILES = ["src/fdtdx/fdtd/update.py", "src/fdtdx/core/physics/curl.py", "src/fdtdx/objects/detectors/field.py", "src/fdtdx/objects/detectors/detector.py", "src/fdtdx/core/physics/symmetry.py"]
FUNCTIONS = [
    "fdtdx.fdtd.update.update_detector_states (helper_fn, is_interior)",
    "fdtdx.core.physics.curl.interpolate_fields",
    "fdtdx.core.physics.curl._backward_edge_average",
    "fdtdx.fdtd.update.pad_fields_with_symmetry_mirror",
    "fdtdx.fdtd.update.pad_fields_for_boundaries",
    "fdtdx.objects.detectors.field.FieldDetector.update",
    "fdtdx.core.physics.symmetry.field_component_parity / mirror_pairs_on_plane (through the mirror halo)",
]
INLINED = ["fdtdx.fdtd.update._check_updated_state_layout"]
STUBS = ["detector schedule arrays (_is_on_at_time_step_arr, _time_step_to_arr_idx): arbitrary, with 0 <= idx[t] < rows at active steps (proved under C14)", "RectilinearGrid.cell_widths (SymGrid)"]
ASSUMPTIONS = ["real arithmetic", "detector box within the volume, 0 <= s < e <= N", "the index map gives an in-range row at active steps (C14)"]
MIN_OBLIGATIONS = {"quick": 300, "thorough": 1000}
LEVEL_TEXT = "Deductive proof for all grid shapes, detector boxes (every edge/corner contact, interior and edge code paths), field values and (non-uniform) cell widths; boundary kinds per face incl. electric symmetry planes enumerated"
LEVEL_NOTE = "real arithmetic; schedule arrays abstracted (C14); quick tier samples the boundary product"


def _detector_task(spec):
    def body(c, inp):
        import fdtdx
        import fdtdx.fdtd.update as U

        assign = spec["bnd"]
        shape = scene.sym_shape()
        for n, v in zip("xyz", shape):
            inp.scalar(f"N{n}", v)
        sym = tuple(spec.get("symmetry", (0, 0, 0)))
        cfg = scene.make_config(nonuniform_shape=shape if spec.get("nonuniform") else None, symmetry=sym)
        bnds = K.make_boundaries(assign, shape, cfg)
        # an electric symmetry plane is realised by a PEC wall flagged as symmetry wall on the min face
        bnds = [b.aset("_is_symmetry_wall", True) if (sym[b.axis] == -1 and b.direction == "-" and type(b).__name__ == "PerfectElectricConductor") else b for b in bnds]
        T = K.sym_time_total()
        rows = sym_int("rows", lo=1)
        box = []
        for a in range(3):
            lo = sym_int(f"s{a}", lo=0)
            hi = sym_int(f"e{a}")
            c.assume((lo < hi).z)
            c.assume((hi <= shape[a]).z)
            inp.scalar(f"s{a}", lo)
            inp.scalar(f"e{a}", hi)
            box.append((lo, hi))
        comps_given = spec.get("components", ("Ex", "Ey", "Ez", "Hx", "Hy", "Hz"))
        # the detector stores the requested components in canonical order (documented component list order)
        comps = tuple(n for n in ("Ex", "Ey", "Ez", "Hx", "Hy", "Hz") if n in comps_given)
        det = fdtdx.FieldDetector(name="det", exact_interpolation=spec.get("exact", True), components=comps_given)
        det = scene._place(det, box, cfg)
        on = A.fresh_array("is_on", (T,), "bool")
        idxmap = A.fresh_array("idxmap", (T,), "int", fact=lambda v, i: A._vand(v >= -1, v < rows))
        det = det.aset("_is_on_at_time_step_arr", on, create_new_ok=True)
        det = det.aset("_time_step_to_arr_idx", idxmap, create_new_ok=True)
        objs = scene.make_objects(shape, cfg, bnds, [det])
        kind = "complex" if spec.get("complex") else "real"
        dshape = tuple(hi - lo for lo, hi in box)
        state0 = A.fresh_array("state", (rows, len(comps), *dshape), kind)
        arr = scene.make_arrays(shape, eps_tier=1, mu_tier="scalar", complex_fields=bool(spec.get("complex")), detector_states={"det": {"fields": state0}})
        H_prev = A.fresh_array("H_prev", (3, *shape), kind)
        inp.array("E", arr.fields.E)
        inp.array("H", arr.fields.H)
        inp.array("H_prev", H_prev)
        inp.note("spec", {k: str(v) for k, v in spec.items()})
        t_arr, t = K.time_scalar("t")
        c.assume((t < T).z)
        widths = None
        if spec.get("nonuniform"):
            widths = [cfg.resolved_grid.cell_widths(a) for a in range(3)]
        phases = {}
        if any("bloch" in p for p in assign):
            from props.C01 import _phase

            for b in bnds:
                if getattr(b, "needs_complex_fields", False):
                    phases[b.axis] = _phase(b, shape, cfg, cfg.resolved_grid.min_spacing if spec.get("nonuniform") else cfg.uniform_spacing())
        y = Yee(shape, assign, widths=widths, ref=1, phases=phases)
        col = Colocation(y, electric_symmetry_axes=[a for a in range(3) if sym[a] == -1])
        c.cover("pre")
        out = U.update_detector_states(t_arr, arr, objs, cfg, H_prev, inverse=False)
        new = out.detector_states["det"]["fields"]
        is_on = on.at_index((A._raw_index(t),))
        row = idxmap.at_index((A._raw_index(t),))
        c.assume(A._vor(A._vnot(is_on), row >= 0))  # contract of the index map (C14)
        E, Hm = arr.fields.E, (H_prev + arr.fields.H) / 2

        def spec_val(idx):
            r, ci = idx[0], idx[1]
            cell = tuple(A._wrap_idx(idx[2 + a]) + box[a][0] for a in range(3))
            name = comps[ci]
            comp = "xyz".index(name[1])
            if not spec.get("exact", True):
                src = E if name[0] == "E" else arr.fields.H
                v = src.at_index((comp,) + tuple(A._raw_index(x) for x in cell))
            else:
                v = col.E(E, comp, cell) if name[0] == "E" else col.H(Hm, comp, cell)
            old = state0.at_index(idx)
            from vc.core import ite

            return ite(A._vand(is_on, A.v_eq(A._wrap_idx(r), row)), v, old)

        expected = SymArray(state0.shape, spec_val, kind)
        prove_arrays_equal("recorded_state", new, expected)

    return body


def tasks(tier, seed):
    out = {}
    pairs = K.AXIS_PAIRS_CLOSED
    assigns = K.boundary_assignments(tier, seed, pairs, n_sample=4 if tier == "quick" else 0)
    if tier == "quick":
        assigns = assigns[:14] + assigns[-4:]
    for a in assigns:
        out[f"exact/{K.bnd_label(a)}/uniform"] = Task(_detector_task(dict(bnd=a)), max_paths=512)
    mixed = (("pec", "pmc"), ("periodic", "periodic"), (None, None))
    for a in [mixed, ((None, None),) * 3, (("periodic", "periodic"),) * 3]:
        out[f"exact/{K.bnd_label(a)}/nonuniform"] = Task(_detector_task(dict(bnd=a, nonuniform=True)), max_paths=512)
        out[f"raw/{K.bnd_label(a)}"] = Task(_detector_task(dict(bnd=a, exact=False)), max_paths=512)
    out["exact/bloch/BBooEM"] = Task(_detector_task(dict(bnd=(("bloch", "bloch"), (None, None), ("pec", "pmc")), complex=True)), max_paths=512)
    # electric symmetry planes (PEC symmetry wall on the min face of the symmetric axis)
    for ax in range(3):
        a = [(None, None)] * 3
        a[ax] = ("pec", None)
        s = [0, 0, 0]
        s[ax] = -1
        out[f"exact/symmetry_axis{ax}/uniform"] = Task(_detector_task(dict(bnd=tuple(a), symmetry=tuple(s))), max_paths=512)
    a = (("pec", "pmc"), ("pec", None), ("periodic", "periodic"))
    out["exact/symmetry_xy/nonuniform"] = Task(_detector_task(dict(bnd=a, symmetry=(-1, -1, 0), nonuniform=True)), max_paths=512)
    out["exact/components_subset"] = Task(_detector_task(dict(bnd=mixed, components=("Hz", "Ex"))), max_paths=512)
    return out


def replay(key, obligation, witness):
    """real update_detector_states under real JAX on the witness' shape/box (random fields) against the
    co-location spec evaluated on the same concrete data"""
    import itertools

    import jax
    import jax.numpy as jnp
    import numpy as np

    import fdtdx
    import fdtdx.fdtd.update as U
    from fdtdx.fdtd.container import ObjectContainer

    spec = K.parse_spec((witness or {}).get("notes"))
    if not spec:
        return False, "no configuration recorded"
    sc = (witness or {}).get("scalars", {})
    details = []
    for attempt in range(3):
        w = {"scalars": dict(sc)} if attempt == 0 else {"scalars": {"Nx": 3 + attempt, "Ny": 3, "Nz": 4}}
        spec2 = dict(spec, eps=1, mu="scalar")
        shape, cfg, objs, arrays, rng = K.concrete_scene(spec2, w, seed=attempt)
        sym = tuple(spec.get("symmetry", (0, 0, 0)))
        objs = [o.aset("_is_symmetry_wall", True) if (hasattr(o, "axis") and sym[o.axis] == -1 and o.direction == "-" and type(o).__name__ == "PerfectElectricConductor") else o for o in objs]
        box = []
        for a in range(3):
            lo = sc.get(f"s{a}") if attempt == 0 else None
            hi = sc.get(f"e{a}") if attempt == 0 else None
            if not (isinstance(lo, int) and isinstance(hi, int) and 0 <= lo < hi <= shape[a]):
                lo, hi = 0, shape[a]
            box.append((lo, hi))
        comps_given = spec.get("components", ("Ex", "Ey", "Ez", "Hx", "Hy", "Hz"))
        comps = tuple(n for n in ("Ex", "Ey", "Ez", "Hx", "Hy", "Hz") if n in comps_given)
        det = fdtdx.FieldDetector(name=f"rdet{rng.integers(1 << 30)}", exact_interpolation=spec.get("exact", True), components=comps_given, dtype=jnp.complex128 if spec.get("complex") else jnp.float64)
        det = scene._place(det, box, cfg)
        det = det.aset("_is_on_at_time_step_arr", jnp.ones(4, dtype=bool), create_new_ok=True)
        det = det.aset("_time_step_to_arr_idx", jnp.arange(4, dtype=jnp.int32), create_new_ok=True)
        dshape = tuple(hi - lo for lo, hi in box)
        st = jnp.zeros((4, len(comps), *dshape), dtype=det.dtype)
        arrays = arrays.aset("detector_states", {det.name: {"fields": st}})
        H_prev = jnp.asarray(rng.normal(size=(3, *shape)) + (1j * rng.normal(size=(3, *shape)) if spec.get("complex") else 0))
        oc = ObjectContainer(object_list=[*objs, det], volume_idx=0)
        with jax.disable_jit():
            out = U.update_detector_states(jnp.asarray(1, dtype=jnp.int32), arrays, oc, cfg, H_prev, inverse=False)
        got = np.asarray(out.detector_states[det.name]["fields"])[1]
        widths = None
        if spec.get("nonuniform"):
            widths = [A.asarray(np.asarray(cfg.resolved_grid.cell_widths(a))) for a in range(3)]
        phases = {}
        for o in objs:
            if getattr(o, "needs_complex_fields", False):
                phases[o.axis] = complex(np.asarray(o.get_bloch_phase(shape, cfg.uniform_spacing() if not spec.get("nonuniform") else float(cfg.resolved_grid.min_spacing))))
        y = Yee(shape, spec["bnd"], widths=widths, ref=1, phases=phases)
        col = Colocation(y, electric_symmetry_axes=[a for a in range(3) if sym[a] == -1])
        E = A.asarray(np.asarray(arrays.fields.E))
        Hraw = A.asarray(np.asarray(arrays.fields.H))
        Hm = A.asarray((np.asarray(H_prev) + np.asarray(arrays.fields.H)) / 2)
        worst = 0.0
        for ci, name in enumerate(comps):
            comp = "xyz".index(name[1])
            for cell in itertools.product(*[range(lo, hi) for lo, hi in box]):
                if not spec.get("exact", True):
                    v = (E if name[0] == "E" else Hraw).at_index((comp, *cell))
                else:
                    v = col.E(E, comp, cell) if name[0] == "E" else col.H(Hm, comp, cell)
                v = complex(v.re, v.im) if isinstance(v, SymNum) else v
                worst = max(worst, abs(got[(ci, *[x - lo for x, (lo, hi) in zip(cell, box)])] - v))
        details.append(f"attempt {attempt}: shape={shape} box={box}: max |recorded - spec| = {worst:.3e}")
        if worst > 1e-9:
            return True, "\n".join(details)
    return False, "\n".join(details)
