"""C10  Fields are linear in sources and initial state.

Relational contract of the two REAL half steps update_E and update_H (incl. sources, boundaries,
conductivities), each from arbitrary inputs, for fixed materials/boundaries/objects:

    half(a*S1 + b*S2 ; source amplitude factors a*A1 + b*A2)  ==  a*half(S1; A1) + b*half(S2; A2)

(one forward step = update_H o update_E with the same amplitude factors is then linear as a composition
of linear maps)

pointwise for E and H (and the PML auxiliary state is part of S where present), for all shapes,
values, a, b; and of the detector update functions:
    FieldDetector / PhasorDetector (forward and inverse):  update is linear in (E, H, state)
    EnergyDetector / PoyntingFluxDetector:                 update(l*E, l*H, l^2*state) == l^2 * update(E, H, state)
Linearity over a whole run follows by induction over steps (each step and each record is linear in
the state; the co-location stencil between them is the linear map proved in C15).
"""

from __future__ import annotations

from props import common as K
from vc import array as A
from vc import scene
from vc.array import SymArray
from vc.core import SymNum, ctx
from vc.harness import Task
from vc.obl import prove_arrays_equal, sym_int, sym_real

ID = "C10"
LEVEL = "proof"
TECHNIQUE = "relational symbolic execution of the real update_E/update_H and detector update functions on three related states; pointwise obligations by z3 / exact ring normal form"
MODULES = K.SOLVER_MODULES + ["fdtdx.objects.detectors.field", "fdtdx.objects.detectors.phasor", "fdtdx.objects.detectors.energy", "fdtdx.objects.detectors.poynting_flux", "fdtdx.core.physics.metrics"]
FILES = K.SOLVER_FILES + ["src/fdtdx/objects/detectors/phasor.py", "src/fdtdx/objects/detectors/field.py", "src/fdtdx/objects/detectors/energy.py", "src/fdtdx/objects/detectors/poynting_flux.py", "src/fdtdx/core/physics/metrics.py", "src/fdtdx/objects/sources/linear_polarization.py"]
FUNCTIONS = [
    "fdtdx.fdtd.update.update_E",
    "fdtdx.fdtd.update.update_H",
    "fdtdx.objects.sources.tfsf.TFSFPlaneSource.update_E/update_H (Uniform/Gaussian plane sources)",
    "fdtdx.objects.sources.dipole.PointDipoleSource.update_E/update_H (electric and magnetic)",
    "fdtdx.objects.detectors.field.FieldDetector.update",
    "fdtdx.objects.detectors.phasor.PhasorDetector.update",
    "fdtdx.objects.detectors.energy.EnergyDetector.update / fdtdx.core.physics.metrics.compute_energy",
    "fdtdx.objects.detectors.poynting_flux.PoyntingFluxDetector.update / compute_poynting_flux",
]
STUBS = ["temporal profile as an uninterpreted function of time", "source set-up arrays and schedule arrays arbitrary", "exp(i w t) of the phasor as (cos, sin) uninterpreted functions"]
ASSUMPTIONS = ["real arithmetic", "induction over time steps is a pencil step on top of the per-step obligations", "spatially reduced detector outputs are covered by C16 (reductions are linear maps of the spatial record)"]
MIN_OBLIGATIONS = {"quick": 150, "thorough": 400}
LEVEL_TEXT = "Deductive proof for all shapes, states, materials, amplitude factors and source data that one real forward step and every detector record is linear (resp. homogeneous of degree 2) in the state; boundary/tier/source configurations enumerated"
LEVEL_NOTE = "real arithmetic; per-step statement + induction; reductions over the detector volume delegated to C16"


def _lin(a, X, b, Y):
    return X * a + Y * b


def _fields_task(spec):
    def body(c, inp):
        import fdtdx.fdtd.update as U

        assign = spec["bnd"]
        shape = scene.sym_shape()
        for n, v in zip("xyz", shape):
            inp.scalar(f"N{n}", v)
        cfg = scene.make_config(nonuniform_shape=shape if spec.get("nonuniform") else None)
        bnds = K.make_boundaries(assign, shape, cfg)
        T = K.sym_time_total()
        a, b = sym_real("a"), sym_real("b")
        A1, A2 = sym_real("A1"), sym_real("A2")
        inp.scalar("a", a)
        inp.scalar("b", b)
        cplx = bool(spec.get("complex"))
        kind = "complex" if cplx else "real"
        # one set of source data, three amplitude factors
        protos = []
        for s in spec.get("sources", []):
            if s[0] == "plane":
                _, cls, ax, d, gated = s
                src, _ = K.make_plane_source(cls, shape, cfg, ax, d, T, gated=gated, complex_profile=cplx, h_filter=bool(spec.get("h_filter")))
            else:
                _, st, pol, gated, rot = s
                src, _ = K.make_dipole(shape, cfg, T, source_type=st, polarization=pol, gated=gated, rotated=rot)
            protos.append(src)

        def objs_with(amp):
            srcs = [p.aset("static_amplitude_factor", amp) for p in protos]
            return scene.make_objects(shape, cfg, bnds, srcs)

        base = scene.make_arrays(shape, eps_tier=spec["eps"], mu_tier=spec["mu"], sigE_tier=spec.get("sigE"), sigH_tier=spec.get("sigH"), complex_fields=cplx)
        E1, H1 = base.fields.E, base.fields.H
        E2 = A.fresh_array("E2", (3, *shape), kind)
        H2 = A.fresh_array("H2", (3, *shape), kind)
        inp.array("E1", E1)
        inp.array("H1", H1)
        inp.array("E2", E2)
        inp.array("H2", H2)
        inp.note("spec", {k: str(v) for k, v in spec.items()})
        t_arr, t = K.time_scalar("t")
        c.assume((t < T).z)
        c.cover("pre")

        # modular: each half step is proved linear in (E, H, amplitude) on its own, from arbitrary inputs;
        # update_H o update_E is then linear as a composition of linear maps (with the shared amplitude).
        def half(fn, E, H, amp):
            st = base.aset("fields->E", E).aset("fields->H", H)
            s1 = fn(t_arr, st, objs_with(amp), cfg, True)
            return s1.fields.E, s1.fields.H

        for hname, fn in (("update_E", U.update_E), ("update_H", U.update_H)):
            Ea, Ha = half(fn, E1, H1, A1)
            Eb, Hb = half(fn, E2, H2, A2)
            Ec, Hc = half(fn, _lin(a, E1, b, E2), _lin(a, H1, b, H2), a * A1 + b * A2)
            prove_arrays_equal(f"{hname}:E_linear", Ec, _lin(a, Ea, b, Eb))
            prove_arrays_equal(f"{hname}:H_linear", Hc, _lin(a, Ha, b, Hb))

    return body


def _detector_task(kind_name, opts):
    def body(c, inp):
        import fdtdx
        from fdtdx.core.wavelength import WaveCharacter

        shape = scene.sym_shape(names=("Dx", "Dy", "Dz"))
        cfg = scene.make_config()
        T = K.sym_time_total()
        rows = sym_int("rows", lo=1)
        cplx = bool(opts.get("complex"))
        fk = "complex" if cplx else "real"
        box = [(0, n) for n in shape]
        name = f"det_{kind_name}"
        if kind_name == "field":
            det = fdtdx.FieldDetector(name=name)
            key, st_shape, st_kind = "fields", (rows, 6, *shape), fk
        elif kind_name == "phasor":
            det = fdtdx.PhasorDetector(name=name, wave_characters=[WaveCharacter(wavelength=1e-6), WaveCharacter(wavelength=1.3e-6)], inverse=opts.get("inverse", False), scaling_mode=opts.get("scaling", "continuous"), dtype=__import__("jax").numpy.complex128)
            key, st_shape, st_kind = "phasor", (1, 2, 6, *shape), "complex"
        elif kind_name == "energy":
            det = fdtdx.EnergyDetector(name=name)
            key, st_shape, st_kind = "energy", (rows, *shape), "real"
        elif kind_name == "poynting":
            det = fdtdx.PoyntingFluxDetector(name=name, direction=opts.get("direction", "+"), reduce_volume=False, keep_all_components=opts.get("all", False), fixed_propagation_axis=opts.get("axis", 0))
            key, st_shape, st_kind = "poynting_flux", ((rows, 3, *shape) if opts.get("all") else (rows, *shape)), "real"
        det = scene._place(det, box, cfg)
        idxmap = A.fresh_array("idxmap", (T,), "int", fact=lambda v, i: A._vand(v >= 0, v < rows))
        det = det.aset("_time_step_to_arr_idx", idxmap, create_new_ok=True)
        det = det.aset("_is_on_at_time_step_arr", A.full((T,), True, "bool"), create_new_ok=True)
        if kind_name == "phasor":
            det = det.aset("_window_at_time_step_arr", A.fresh_array("window", (T,)), create_new_ok=True)
            det = det.aset("_window_sum", sym_real("wsum", lo_strict=0), create_new_ok=True)
            det = det.aset("_dft_stride", 3, create_new_ok=True)
        t_arr, t = K.time_scalar("t")
        c.assume((t < T).z)
        inv_eps = A.fresh_array("inv_eps", (3, *shape), fact=lambda v, i: v > 0)
        inv_mu = A.fresh_array("inv_mu", (3, *shape), fact=lambda v, i: v > 0)
        mk = lambda n, k=fk: A.fresh_array(n, (3, *shape), k)  # noqa: E731
        E1, H1, E2, H2 = mk("E1"), mk("H1"), mk("E2"), mk("H2")
        S1 = A.fresh_array("S1", st_shape, st_kind)
        S2 = A.fresh_array("S2", st_shape, st_kind)
        c.cover("pre")

        def upd(E, H, S):
            return det.update(time_step=t_arr, E=E, H=H, state={key: S}, inv_permittivity=inv_eps, inv_permeability=inv_mu)[key]

        if kind_name in ("field", "phasor"):
            a, b = sym_real("a"), sym_real("b")
            lhs = upd(_lin(a, E1, b, E2), _lin(a, H1, b, H2), _lin(a, S1, b, S2))
            rhs = _lin(a, upd(E1, H1, S1), b, upd(E2, H2, S2))
            prove_arrays_equal(f"{kind_name}_record_linear", lhs, rhs)
        else:
            lam = sym_real("lam")
            lhs = upd(E1 * lam, H1 * lam, S1 * (lam * lam))
            rhs = upd(E1, H1, S1) * (lam * lam)
            prove_arrays_equal(f"{kind_name}_record_quadratic", lhs, rhs)

    return body


def tasks(tier, seed):
    out = {}
    mixed = (("pec", "pmc"), ("periodic", "periodic"), (None, None))
    open_ = ((None, None),) * 3
    src_sets = [
        [("plane", "UniformPlaneSource", 0, "+", False)],
        [("plane", "GaussianPlaneSource", 2, "-", True)],
        [("dipole", "electric", 2, False, False)],
        [("dipole", "magnetic", 0, True, True)],
        [("plane", "UniformPlaneSource", 1, "+", True), ("dipole", "electric", 1, False, True), ("dipole", "magnetic", 2, False, False)],
    ]
    tiers = [(3, 3, 3, 3), (1, "scalar", None, None), (9, 9, None, None), (3, 1, 1, None)]
    for i, ss in enumerate(src_sets):
        for e, m, se, sh in tiers if (tier == "thorough" or i in (0, 4)) else tiers[:2]:
            lab = "+".join("_".join(str(x) for x in s) for s in ss)
            out[f"fields/{lab}/e{e}m{m}sE{se}sH{sh}"] = Task(_fields_task(dict(bnd=mixed, eps=e, mu=m, sigE=se, sigH=sh, sources=ss)), max_paths=256)
    for a in [open_, (("periodic", "periodic"),) * 3, (("pec", "pec"), ("pmc", "pmc"), ("pec", "pmc"))]:
        out[f"fields/nosrc/{K.bnd_label(a)}"] = Task(_fields_task(dict(bnd=a, eps=3, mu=3, sigE=3, sigH=3)))
    for ss in src_sets[:2]:
        lab = "+".join("_".join(str(x) for x in s_) for s_ in ss)
        out[f"fields/{lab}/dispersive_H_filter"] = Task(_fields_task(dict(bnd=mixed, eps=3, mu=1, sigE=None, sigH=None, sources=ss, h_filter=True)), max_paths=256)
    out["fields/nonuniform"] = Task(_fields_task(dict(bnd=mixed, eps=3, mu=3, sigE=1, sigH=None, nonuniform=True, sources=src_sets[0])), max_paths=256)
    out["fields/bloch_complex"] = Task(_fields_task(dict(bnd=(("bloch", "bloch"), (None, None), ("pec", "pmc")), eps=3, mu=1, sigE=None, sigH=None, complex=True, sources=src_sets[0])), max_paths=256)
    out["detector/field"] = Task(_detector_task("field", {}))
    out["detector/field_complex"] = Task(_detector_task("field", {"complex": True}))
    for inv in (False, True):
        for sc in ("continuous", "pulse"):
            out[f"detector/phasor/inverse={inv}/{sc}"] = Task(_detector_task("phasor", {"inverse": inv, "scaling": sc}))
    out["detector/energy"] = Task(_detector_task("energy", {}))
    out["detector/energy_complex"] = Task(_detector_task("energy", {"complex": True}))
    for d in "+-":
        for allc in (False, True):
            out[f"detector/poynting/{d}/all={allc}"] = Task(_detector_task("poynting", {"direction": d, "all": allc, "axis": 1}))
    return out
