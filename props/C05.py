"""C05  Forward results do not depend on the gradient strategy; the reversible slice partition.

Contracts (top-level postconditions from the property text)

  _reversible_slice_boundaries(T, k)          requires 1 <= k <= T   (the guard in reversible_fdtd
      ensures  len == k+1,  s[0] == 0,  s[k] == T,  s[i+1] > s[i]      makes it hold on every non-raising path)
  run_fdtd(arrays, objects, config)           for gradient_config in {None, checkpointed(n), reversible(k-1)}
      ensures  result == (T, forward^T(reset(arrays)))   with the same step function (config, objects,
               key, record_detectors=True, simulate_boundaries=True) for every strategy, T = config.time_steps_total
  forward((t, X), flags)                      ensures  step counter t+1; materials untouched; fields and
               detector states do not depend on `record_boundaries` (collect_interfaces writes recording_state only)

The time loops are handled by the while rule with the assumed contract of equinox.internal.while_loop
(spec/C05_timeloop.py): the REAL cond_fun/body_fun/init_val/max_steps handed to the primitive by the REAL
run_fdtd / checkpointed_fdtd / reversible_fdtd are analysed, the loop itself is not executed.
"""

from __future__ import annotations

from spec import C05_timeloop as TL
from vc import array as A
from vc import scene
from vc.core import PathAbort, SymNum, Undecided, ctx, v_eq
from vc.harness import Task
from vc.obl import prove_arrays_equal, sym_int

_ENGINE_EXC = (TL.Unsupported, PathAbort, Undecided)

ID = "C05"
LEVEL = "proof"
TECHNIQUE = "while rule with an assumed contract for equinox.internal.while_loop applied to the real loop pieces (guard, body, bound, initial carry) of run_fdtd; generic-index proof of the slice partition with symbolic T, k and round(); z3"
MODULES = ["fdtdx.fdtd.fdtd", "fdtdx.fdtd.wrapper", "fdtdx.fdtd.stop_conditions", "fdtdx.fdtd.container", "fdtdx.fdtd.forward", "fdtdx.fdtd.update"]
FILES = ["src/fdtdx/fdtd/fdtd.py", "src/fdtdx/fdtd/wrapper.py", "src/fdtdx/config.py", "src/fdtdx/fdtd/stop_conditions.py", "src/fdtdx/fdtd/container.py", "src/fdtdx/fdtd/forward.py"]
FUNCTIONS = [
    "fdtdx.fdtd.fdtd._reversible_slice_boundaries",
    "fdtdx.fdtd.fdtd.reversible_fdtd (guard, slice set-up, segmented_forward, reversible_fdtd_base, primal of reversible_fdtd_primal, result re-assembly)",
    "fdtdx.fdtd.fdtd.checkpointed_fdtd",
    "fdtdx.fdtd.wrapper.run_fdtd",
    "fdtdx.fdtd.stop_conditions.TimeStepCondition.setup/__call__",
    "fdtdx.fdtd.container.ArrayContainer.reset",
    "fdtdx.fdtd.forward.forward (step counter, frame, independence of record_boundaries)",
    "fdtdx.fdtd.update.collect_interfaces",
    "fdtdx.config.SimulationConfig.only_forward/invertible_optimization, GradientConfig.__post_init__",
]
INLINED = ["fdtdx.core.progress._make_pbar/_wrap_body_with_progress (show_progress=False: body returned unchanged)", "fdtdx.core.jax.default_key.default_key", "TreeClass.aset (pytreeclass)"]
STUBS = [
    "equinox.internal.while_loop: assumed contract 'result = body^n(init), n = first j with not cond(body^j(init)) or j == max_steps' (kinds lax/checkpointed; `checkpoints` does not affect the forward value)",
    "jax.custom_vjp: calling the decorated function evaluates the primal function",
    "SimulationConfig.time_steps_total: a fixed integer T >= 0 per config (symbolic)",
    "update_E / update_H / update_detector_states inside forward: uninterpreted functions of their arguments that only write fields.E / fields.H / detector_states (frames proved under C02)",
    "Recorder.compress: uninterpreted",
]
ASSUMPTIONS = [
    "iteration lemma L7: body^m(body^n(x)) = body^(n+m)(x) (Function.iterate_add_apply); used to join consecutive loop segments whose step counters are proved contiguous",
    "round(): an integer within 1/2 of its argument (any tie-breaking); i*T/k evaluated in exact arithmetic (the float evaluation is covered by the bounded part only)",
    "number of reversible slices k enumerated (quick: 1..8, thorough: 1..40) for the segmented loop's control flow; the partition itself is proved for all k",
    "bounded part (labelled, not counted as proof): the real float evaluation of the slice boundaries for every 1 <= k <= T, T < 240 (quick) / T < 1200 (thorough)",
    "progress bar disabled (show_progress=False)",
]
MIN_OBLIGATIONS = {"quick": 2500, "thorough": 12000}
LEVEL_TEXT = (
    "Deductive proof for all total step counts T, grid shapes and states: (1) the slice boundaries of the real _reversible_slice_boundaries "
    "start at 0, end at T and are strictly increasing for ALL 1 <= k <= T (generic index, symbolic T and k); (2) the loops built by the real "
    "run_fdtd for gradient_config None / checkpointed (any checkpoint count) / reversible (k slices) each execute exactly T forward steps from "
    "the reset container with the same step function, by the while rule under the documented contract of the loop primitive; (3) the real forward "
    "increments the counter by one and its fields/detector outputs do not depend on boundary recording"
)
LEVEL_NOTE = "loop primitive and custom_vjp by assumed contract; integers/reals mathematical; slice count k enumerated for the segmented control flow (partition proved for all k); float evaluation of round(i*T/k) covered only by the labelled bounded enumeration"


# ---------------------------------------------------------------------------------------
# shared set-up
# ---------------------------------------------------------------------------------------


class _Recorder:
    """stand-in recorder (uninterpreted compress)"""

    def __init__(self):
        self.calls = []

    def compress(self, values, state, time_step, key):
        self.calls.append((values, state, time_step, key))
        return TL.Token(("compressed", len(self.calls)))

    def decompress(self, state, time_step, key):
        return {}, state


class sym_total_steps:
    """SimulationConfig.time_steps_total := T (assumed: a fixed integer per config)"""

    def __init__(self, T):
        self.T = T

    def __enter__(self):
        from fdtdx.config import SimulationConfig

        self.cls = SimulationConfig
        self.old = SimulationConfig.__dict__["time_steps_total"]
        T = self.T
        type.__setattr__(SimulationConfig, "time_steps_total", property(lambda self: T))
        return self

    def __exit__(self, *exc):
        type.__setattr__(self.cls, "time_steps_total", self.old)
        return False


def make_scene(inp, with_pml=True, with_detector=True, T=None):
    """symbolic scene: shape (Nx,Ny,Nz), arbitrary fields/materials, one PML aux pair, one detector"""
    shape = scene.sym_shape()
    for n, v in zip("xyz", shape):
        inp.scalar(f"N{n}", v)
    psi = None
    if with_pml:
        th = sym_int("pml_thickness", lo=1)
        ctx().assume((th <= shape[0]).z)
        pshape = (3, th, shape[1], shape[2])
        psi = ({"pml_min_x": (A.fresh_array("psiE0", pshape), A.fresh_array("psiE1", pshape))}, {"pml_min_x": (A.fresh_array("psiH0", pshape), A.fresh_array("psiH1", pshape))})
    det = {}
    if with_detector:
        nt = sym_int("n_readings", lo=0) if T is None else T
        det = {"det": {"energy": A.fresh_array("det_energy", (nt, 1))}, "flux": {"poynting_flux": A.fresh_array("det_flux", (nt, 1))}}
    arrays = scene.make_arrays(shape, eps_tier=3, mu_tier=1, sigE_tier=1, psi=psi, detector_states=det, recording_state=TL.Token(("recording_state", 0)))
    return shape, arrays


def make_cfg(gradient_config=None):
    return scene.make_config(gradient_config=gradient_config)


def _key():
    import jax

    return jax.random.PRNGKey(0)


# ---------------------------------------------------------------------------------------
# (1) slice partition for all T >= k >= 1
# ---------------------------------------------------------------------------------------


class _SampleRange:
    """range(n) with a symbolic bound, observed at the indices 0, i, i+1, n-1 (i generic):
    the comprehension `[f(j) for j in range(n)]` is a map, so evaluating the REAL element expression
    at generic indices proves statements about every element"""

    def __init__(self, n, samples):
        self.n, self.samples = n, samples

    def __iter__(self):
        return iter(self.samples)


def _partition_all_k(c, inp):
    import fdtdx.fdtd.fdtd as F

    T = sym_int("T", lo=1)
    k = sym_int("k", lo=1)
    c.assume((k <= T).z)
    i = sym_int("i", lo=0)
    c.assume((i + 1 <= k).z)
    inp.scalar("T", T)
    inp.scalar("k", k)
    inp.scalar("i", i)
    bounds = []

    def rng(*a):
        if len(a) == 1 and isinstance(a[0], SymNum):
            bounds.append(a[0])
            return _SampleRange(a[0], [0, i, i + 1, a[0] - 1])
        return range(*a)

    F.__dict__["range"] = rng
    try:
        c.cover("pre")
        s = F._reversible_slice_boundaries(T, k)
    finally:
        F.__dict__.pop("range", None)
    ok = c.prove("slice_boundaries/one_map_over_range", len(bounds) == 1 and isinstance(s, list) and len(s) == 4)
    if not ok:
        return
    c.prove("slice_boundaries/post:k+1_boundaries", v_eq(bounds[0], k + 1))
    c.prove("slice_boundaries/post:starts_at_0", v_eq(s[0], 0))
    c.prove("slice_boundaries/post:ends_at_T", v_eq(s[3], T))
    c.prove("slice_boundaries/post:strictly_increasing(generic i)", s[2] > s[1])
    c.prove("slice_boundaries/post:integer_boundaries", all(TL._is_int_valued(x) for x in s))


def _partition_bounded(lo, hi):
    def body(c, inp):
        import fdtdx.fdtd.fdtd as F

        for T in range(lo, hi):
            bad = None
            for k in range(1, T + 1):
                s = F._reversible_slice_boundaries(T, k)
                if not (len(s) == k + 1 and s[0] == 0 and s[-1] == T and all(type(x) is int for x in s) and all(b > a for a, b in zip(s, s[1:]))):
                    bad = {"T": T, "k": k, "boundaries": s[:12]}
                    break
            c.bounded("slice_boundaries/real_floats", bad is None, case={"T": T, "k": f"1..{T}"}, witness={"scalars": bad or {}, "arrays": {}, "notes": {}})

    return body


# ---------------------------------------------------------------------------------------
# (2) the three strategies run forward^T from the reset container with the same step function
# ---------------------------------------------------------------------------------------


def _run(L, arrays, objs, cfg, key, **kw):
    from fdtdx.fdtd.wrapper import run_fdtd

    n0 = len(L.calls)
    res = run_fdtd(arrays, objs, cfg, key, show_progress=False, **kw)
    return res, L.calls[n0:]


def _post_run(c, tag, res, calls, A0, T, cfg, objs, key):
    """post of run_fdtd: (T, forward^T(reset(A0))) with the documented step function"""
    ok = c.prove(f"{tag}/post:result_is_(step,arrays)", isinstance(res, tuple) and len(res) == 2)
    if not ok:
        return None
    c.prove(f"{tag}/post:final_step_count==T", v_eq(TL.scalar(res[0]), T))
    g = TL.ghost_of(res[1])
    ok = c.prove(f"{tag}/post:result_is_the_last_loop_state", isinstance(g, TL.Iter) and bool(calls) and g is calls[-1]["iter_out"])
    if not ok:
        return None
    c.prove(f"{tag}/post:steps_start_at_counter_0", v_eq(g.t0, 0))
    c.prove(f"{tag}/post:T_forward_steps", v_eq(g.n, T))
    TL.prove_is_reset_of(f"{tag}/post:starts_from_reset_container", g.origin, A0)
    exp = {"config": cfg, "objects": objs, "key": key, "record_detectors": True, "record_boundaries": cfg.invertible_optimization, "simulate_boundaries": True}
    c.prove(f"{tag}/post:step_function(config,objects,key,flags)", TL.same_sig(g.sig, exp))
    return g


def _strategies(k):
    def body(c, inp):
        import fdtdx.fdtd.fdtd as F
        from fdtdx.config import GradientConfig

        T = sym_int("T", lo=0)
        inp.scalar("T", T)
        inp.note("k", k)
        shape, A0 = make_scene(inp, T=T)
        key = _key()
        n_ckpt = sym_int("num_checkpoints", lo=1)
        cfgs = {
            "none": make_cfg(None),
            "checkpointed": make_cfg(GradientConfig(method="checkpointed", num_checkpoints=n_ckpt)),
            "reversible": make_cfg(GradientConfig(method="reversible", recorder=_Recorder(), num_checkpoints_reversible=k - 1)),
        }
        objs = scene.make_objects(shape, cfgs["none"])
        c.cover("pre")
        results = {}
        with sym_total_steps(T), TL.LoopHarness() as L:
            for name, cfg in cfgs.items():
                try:
                    res, calls = _run(L, A0, objs, cfg, key)
                except _ENGINE_EXC:
                    raise
                except Exception as e:  # noqa: BLE001
                    documented = name == "reversible" and k - 1 > 0
                    c.prove(f"{name}/raises_only_when_documented(num_slices>T)", documented and (k > T), extra_hyps=())
                    continue
                if name == "reversible" and k > 1:
                    c.prove("reversible/no_raise=>1<=k<=T (precondition of the partition)", T >= k)
                n_loops = k if name == "reversible" else 1
                c.prove(f"{name}/number_of_loop_segments", len(calls) == n_loops)
                if name == "checkpointed":
                    c.prove("checkpointed/checkpoints_argument_is_config_value", TL.same_num(calls[0]["checkpoints"], n_ckpt))
                results[name] = _post_run(c, name, res, calls, A0, T, cfg, objs, key), res
        # relational conclusion: same final step count, same number of steps of the same step
        # function (up to record_boundaries, see forward/contract) from pointwise-equal origins
        base = results.get("none")
        for name in ("checkpointed", "reversible"):
            if name not in results or base is None or base[0] is None or results[name][0] is None:
                continue
            g, res = results[name]
            c.prove(f"none~{name}/same_final_step_count", v_eq(TL.scalar(res[0]), TL.scalar(base[1][0])))
            c.prove(f"none~{name}/same_number_of_steps", v_eq(g.n, base[0].n))
            c.prove(f"none~{name}/same_step_function_up_to_record_boundaries_and_config", TL.same_sig(g.sig, base[0].sig, ignore=("config", "record_boundaries")))
            TL.prove_same_container(f"none~{name}/same_initial_state", g.origin, base[0].origin, skip=("fields.dispersive_P_curr", "fields.dispersive_P_prev", "dispersive_c1", "dispersive_c2", "dispersive_c3", "dispersive_c4"))

    return body


def _dispatch_unknown(c, inp):
    """run_fdtd raises for a method outside {reversible, checkpointed}; no silent fall-through"""
    from fdtdx.config import GradientConfig

    T = sym_int("T", lo=0)
    shape, A0 = make_scene(inp, with_pml=False, T=T)
    g = GradientConfig(method="checkpointed", num_checkpoints=3)
    g.__dict__["method"] = "something_else"
    cfg = make_cfg(g)
    objs = scene.make_objects(shape, cfg)
    raised = False
    with sym_total_steps(T), TL.LoopHarness() as L:
        try:
            _run(L, A0, objs, cfg, _key())
        except _ENGINE_EXC:
            raise
        except Exception:  # noqa: BLE001
            raised = True
        c.prove("dispatch/unknown_method_raises_without_running", raised and not L.calls)


# ---------------------------------------------------------------------------------------
# (3) contract of one forward step used by the while rule
# ---------------------------------------------------------------------------------------


def _forward_contract(c, inp):
    import fdtdx.fdtd.forward as FW
    from props import common as K

    T = sym_int("T", lo=1)
    shape, A0 = make_scene(inp, T=T)
    rec = _Recorder()
    from fdtdx.config import GradientConfig

    cfg = make_cfg(GradientConfig(method="reversible", recorder=rec))
    pml = scene.make_boundary("pml", 0, "-", shape, cfg)
    objs = scene.make_objects(shape, cfg, [pml])
    t_arr, t = K.time_scalar("t")
    inp.scalar("t", t)
    key = _key()
    log = []
    E1 = A.fresh_array("E1", A0.fields.E.shape)
    H1 = A.fresh_array("H1", A0.fields.H.shape)
    D1 = {"det": {"energy": A.fresh_array("D1", A0.detector_states["det"]["energy"].shape)}, "flux": A0.detector_states["flux"]}

    def st_update_E(time_step, arrays, objects, config, simulate_boundaries):
        log.append(("update_E", time_step, arrays, objects, config, simulate_boundaries))
        return arrays.aset("fields->E", E1)

    def st_update_H(time_step, arrays, objects, config, simulate_boundaries):
        log.append(("update_H", time_step, arrays, objects, config, simulate_boundaries))
        return arrays.aset("fields->H", H1)

    def st_update_det(time_step, arrays, objects, config, H_prev, inverse):
        log.append(("update_detector_states", time_step, arrays, objects, config, H_prev, inverse))
        return arrays.aset("detector_states", D1)

    def st_collect_boundary_interfaces(arrays, pml_objects):
        log.append(("collect_boundary_interfaces", arrays, pml_objects))
        return {"pml": TL.Token(("interfaces", 0))}

    import fdtdx.fdtd.update as U

    saved = (FW.update_E, FW.update_H, FW.update_detector_states, U.collect_boundary_interfaces)
    FW.update_E, FW.update_H, FW.update_detector_states, U.collect_boundary_interfaces = st_update_E, st_update_H, st_update_det, st_collect_boundary_interfaces
    outs = {}
    try:
        c.cover("pre")
        for rb in (False, True):
            log.clear()
            s1 = FW.forward((t_arr, A0), cfg, objs, key, record_detectors=True, record_boundaries=rb, simulate_boundaries=True)
            outs[rb] = (s1, list(log))
    finally:
        FW.update_E, FW.update_H, FW.update_detector_states, U.collect_boundary_interfaces = saved
    for rb, (s1, lg) in outs.items():
        tag = f"forward(record_boundaries={rb})"
        c.prove(f"{tag}/post:step_counter+1", v_eq(TL.scalar(s1[0]), t + 1))
        names = [e[0] for e in lg]
        c.prove(f"{tag}/call_order", names == (["update_E", "update_H", "collect_boundary_interfaces", "update_detector_states"] if rb else ["update_E", "update_H", "update_detector_states"]))
        if names[:2] != ["update_E", "update_H"] or names[-1] != "update_detector_states":
            continue
        uE, uH, uD = lg[0], lg[1], lg[-1]
        S = TL.same
        same_env = lambda e: S(TL.scalar(e[1]), t) and e[3] is objs and e[4] is cfg  # noqa: E731
        c.prove(f"{tag}/update_E:on_the_input_state", uE[2] is A0 and same_env(uE) and uE[5] is True)
        c.prove(f"{tag}/update_H:on_update_E_output", S(uH[2].fields.E, E1) and S(uH[2].fields.H, A0.fields.H) and same_env(uH) and uH[5] is True)
        a = uD[2]
        c.prove(f"{tag}/update_detector_states:sees_updated_fields_and_H_prev", S(a.fields.E, E1) and S(a.fields.H, H1) and S(uD[5], A0.fields.H) and uD[6] is False and same_env(uD) and S(a.detector_states, A0.detector_states))
        for nm in TL.MATERIAL_LEAVES:
            c.prove(f"{tag}/frame:{nm}", S(getattr(s1[1], nm), getattr(A0, nm)) and S(getattr(a, nm), getattr(A0, nm)))
        c.prove(f"{tag}/frame:psi", S(s1[1].fields.psi_E, A0.fields.psi_E) and S(s1[1].fields.psi_H, A0.fields.psi_H))
        c.prove(f"{tag}/post:fields_and_detectors", S(s1[1].fields.E, E1) and S(s1[1].fields.H, H1) and S(s1[1].detector_states, D1))
        if rb:
            rs = s1[1].recording_state
            c.prove(f"{tag}/collect_interfaces:writes_recording_state_only", isinstance(rs, TL.Token) and rs._ghost[0] == "compressed" and len(rec.calls) == 1 and S(rec.calls[-1][1], A0.recording_state) and S(TL.scalar(rec.calls[-1][2]), t))
        else:
            c.prove(f"{tag}/frame:recording_state", S(s1[1].recording_state, A0.recording_state))
    # independence: everything but recording_state is the same value in both runs (the stubs are
    # functions of their arguments, which were proved identical above)
    (sa, _), (sb, _) = outs[False], outs[True]
    c.prove("forward/fields_and_detectors_independent_of_record_boundaries", TL.same(sa[1].fields, sb[1].fields) if False else (TL.same(sa[1].fields.E, sb[1].fields.E) and TL.same(sa[1].fields.H, sb[1].fields.H) and TL.same(sa[1].fields.psi_E, sb[1].fields.psi_E) and TL.same(sa[1].fields.psi_H, sb[1].fields.psi_H) and TL.same(sa[1].detector_states, sb[1].detector_states)))


# ---------------------------------------------------------------------------------------


def tasks(tier, seed):
    out = {"partition/all_T_k": Task(_partition_all_k), "forward/contract": Task(_forward_contract), "dispatch/unknown_method": Task(_dispatch_unknown)}
    ks = range(1, 9) if tier == "quick" else range(1, 41)
    for k in ks:
        out[f"strategies/k{k:02d}"] = Task(_strategies(k))
    hi = 240 if tier == "quick" else 1200
    step = 40 if tier == "quick" else 60
    for lo in range(1, hi, step):
        out[f"partition/bounded_real_floats/T{lo:04d}"] = Task(_partition_bounded(lo, min(hi, lo + step)), modules=[])
    return out


def replay(key, obligation, witness):
    """slice partition: the real function on the witness (T, k); strategies: real run_fdtd under real
    JAX on a small periodic dipole scene (non-zero start fields and detector buffers) for the three
    gradient strategies; forward: one real step with and without boundary recording"""
    sc = (witness or {}).get("scalars", {})
    if key.startswith("partition"):
        import fdtdx.fdtd.fdtd as F

        T, k = sc.get("T"), sc.get("k")
        if not isinstance(T, int) or not isinstance(k, int) or not (1 <= k <= T):
            return False, f"witness (T={T}, k={k}) outside the precondition"
        s = F._reversible_slice_boundaries(T, k)
        bad = not (len(s) == k + 1 and s[0] == 0 and s[-1] == T and all(b > a for a, b in zip(s, s[1:])))
        return bad, f"T={T} k={k}: real boundaries {s[:20]}{'...' if len(s) > 20 else ''}"
    if key.startswith("strategies"):
        k = int((witness or {}).get("notes", {}).get("k", 2))
        Ts = [12]
        if isinstance(sc.get("T"), int) and 0 <= sc["T"] <= 40:
            Ts.insert(0, sc["T"])
        details = []
        for T in Ts:
            bad, d = _replay_strategies(k, T)
            details.append(d)
            if bad:
                return True, "\n".join(details)
        return False, "\n".join(details)
    if key.startswith("forward"):
        return _replay_forward()
    return False, "no concrete replay for this obligation (structural)"


def _real_scene(T=12, gradient_config=None, n=6, dirty=True, dtype=None):
    import jax
    import jax.numpy as jnp
    import numpy as np

    import fdtdx
    from fdtdx.core.wavelength import WaveCharacter

    cfg = fdtdx.SimulationConfig(time=1e-15, grid=fdtdx.UniformGrid(spacing=2e-8), backend="cpu", dtype=dtype or jnp.float64, gradient_config=gradient_config)
    cfg = cfg.aset("time", (T + 0.2) * cfg.time_step_duration)
    vol = fdtdx.SimulationVolume(partial_real_shape=(n * 2e-8,) * 3)
    objs, cons = [vol], []
    bound_cfg = fdtdx.BoundaryConfig.from_uniform_bound(boundary_type="periodic")
    bdict, c_list = fdtdx.boundary_objects_from_config(bound_cfg, vol)
    objs += list(bdict.values())
    cons += c_list
    src = fdtdx.PointDipoleSource(name="dip", wave_character=WaveCharacter(wavelength=2e-7), polarization=2, partial_grid_shape=(1, 1, 1))
    cons.append(src.place_at_center(vol))
    det = fdtdx.EnergyDetector(name="energy", reduce_volume=True)
    cons += det.same_position_and_size(vol)
    objs += [src, det]
    key = jax.random.PRNGKey(0)
    oc, arrays, params, cfg, _ = fdtdx.place_objects(object_list=objs, config=cfg, constraints=cons, key=key)
    arrays, oc, _ = fdtdx.apply_params(arrays, oc, params, key)
    if dirty:  # a container that has been used before: non-zero fields and detector buffers
        rng = np.random.default_rng(0)
        arrays = arrays.aset("fields->E", jnp.asarray(rng.normal(size=arrays.fields.E.shape)))
        arrays = arrays.aset("fields->H", jnp.asarray(rng.normal(size=arrays.fields.H.shape)))
        arrays = arrays.aset("detector_states", {k: {k2: v2 + 1.0 for k2, v2 in v.items()} for k, v in arrays.detector_states.items()})
    return cfg, oc, arrays, key


def _rel(a, b):
    import numpy as np

    a, b = np.asarray(a, dtype=float), np.asarray(b, dtype=float)
    if a.shape != b.shape:
        return float("inf")
    scale = max(float(np.max(np.abs(b))) if b.size else 0.0, 1e-300)
    return (float(np.max(np.abs(a - b))) if a.size else 0.0) / scale


def _replay_strategies(k, T=12):
    import fdtdx
    import fdtdx.fdtd.fdtd as F
    from fdtdx.config import GradientConfig

    out = {}
    rec = fdtdx.Recorder(modules=[])
    notes = []
    bad = False
    for name, g in (("none", None), ("checkpointed", GradientConfig(method="checkpointed", num_checkpoints=3)), ("reversible", GradientConfig(method="reversible", recorder=rec, num_checkpoints_reversible=k - 1))):
        cfg, oc, arrays, key = _real_scene(T, g)
        if cfg.time_steps_total != T:
            return False, f"scene construction gave {cfg.time_steps_total} steps instead of {T}"
        try:
            t, arr = fdtdx.run_fdtd(arrays, oc, cfg, key, show_progress=False)
        except Exception as e:  # noqa: BLE001
            documented = name == "reversible" and k - 1 > 0 and k > T
            notes.append(f"{name}: raised {type(e).__name__} ({'documented' if documented else 'NOT documented'})")
            bad |= not documented
            continue
        if name == "reversible":
            s = F._reversible_slice_boundaries(T, k)
            part_ok = len(s) == k + 1 and s[0] == 0 and s[-1] == T and all(b > a for a, b in zip(s, s[1:]))
            if not part_ok and not (k == 1 and T == 0):
                notes.append(f"reversible ran with boundaries {s} (not a partition into non-empty slices)")
                bad = True
        out[name] = (int(t), arr.fields.E, arr.fields.H, arr.detector_states["energy"]["energy"])
    base = out.get("none")
    for name in ("checkpointed", "reversible"):
        if name not in out or base is None:
            continue
        o = out[name]
        d = max(_rel(o[i], base[i]) for i in (1, 2, 3))
        notes.append(f"{name}: steps {o[0]} vs {base[0]}, max relative diff of E/H/detector {d:.3e}")
        bad |= o[0] != base[0] or d > 1e-9
    if base is not None and base[0] != T:
        notes.append(f"plain run stopped at {base[0]} != T")
        bad = True
    return bad, f"T={T}, k={k}: " + "; ".join(notes)


def _replay_forward():
    import jax.numpy as jnp

    import fdtdx
    import fdtdx.fdtd.forward as FW
    from fdtdx.config import GradientConfig

    rec = fdtdx.Recorder(modules=[])
    res = {}
    for rb in (False, True):
        cfg, oc, arrays, key = _real_scene(6, GradientConfig(method="reversible", recorder=rec), dirty=True)
        s1 = FW.forward((jnp.asarray(2, dtype=jnp.int32), arrays), cfg, oc, key, record_detectors=True, record_boundaries=rb, simulate_boundaries=True)
        res[rb] = s1
    t_ok = int(res[False][0]) == 3 and int(res[True][0]) == 3
    d = max(_rel(res[True][1].fields.E, res[False][1].fields.E), _rel(res[True][1].fields.H, res[False][1].fields.H), _rel(res[True][1].detector_states["energy"]["energy"], res[False][1].detector_states["energy"]["energy"]))
    return (not t_ok) or d > 1e-12, f"one real forward step from t=2: counters {int(res[False][0])}/{int(res[True][0])}, max relative diff with/without boundary recording {d:.3e}"
