"""C16  Detector reductions are consistent with their spatial records.

Every clause of the property is an identity between the records of two (or seven) REAL detectors
that see the same fields.  Each task builds the detectors through their real constructors, places
them with their REAL ``place_on_grid`` (so the cached volume / face-area weights come from the real
``Detector.place_on_grid`` / ``_resolve_face_area_weights`` / grid accessors) and calls the REAL
``update`` on fully symbolic fields; the spec side is written from the property text:

  V(x,y,z) = wx*wy*wz  (cell volume),  A_a(x,y,z) = product of the two widths transverse to a.

For the volume detectors the proof is modular: Lemma A, the weights cached by the real
place_on_grid equal V (and V > 0); Lemma B, the identities below for an ARBITRARY positive weight
array in place of the cached one (so in particular for V).

  field     reduced.fields[k,c]            == sum_cells spatial.fields[k,c,cell]*V / sum_cells V
  energy    reduced.energy[k]              == sum_cells spatial.energy[k,cell]*V
  phasor    (reduced.phasor' - reduced.phasor)[0,f,c]
                                           == sum_cells (spatial.phasor' - spatial.phasor)[0,f,c,cell]*V / sum V
            (the increment form; both records start at zero -- `init_state` is checked to return
            zeros -- and the weighted mean is linear, so by induction over the recorded steps the
            accumulated reduced phasor is the weighted mean of the accumulated spatial phasor)
  flux      reduced[k]      == sum_cells spatial[k,cell]*A_p(cell)        (p = propagation axis)
            reduced_all[k,c]== sum_cells spatial_all[k,c,cell]*A_c(cell)
            '-' record      == -('+' record)
            single[k,(cell)]== all[k,p,(cell)]
  closed    closed[k]       == s * sum_{a in active axes} (F(max face of a) - F(min face of a)),
            F(face) = record of a real PoyntingFluxDetector('+', fixed axis a, reduced) placed on
            that face and fed the fields restricted to it; s = -1 for orientation 'inward';
            active axes = `axes` if given, else all three (size-one axes cancel).
  inverse   (inverse.phasor' - phasor) == -(forward.phasor' - phasor)   for PhasorDetector
            (reduced or not) and every face record of ClosedSurfacePhasorPoyntingFluxDetector.

In every task the rows of the record other than the row of the current step are proved unchanged.

Quantification: grid shape, position of the detector box in the grid, grid spacing / all cell
widths, all field / material / state values, time step, time-index table, frequencies, window
weights, stride are SYMBOLIC.  The extent of the detector box fixes the trip count of the
reductions and is ENUMERATED (concrete small extents, listed in the task keys); option switches
(reduce_volume, keep_all_components, direction, orientation, axes, component subsets, material
tiers, uniform / non-uniform grid, inverse) are enumerated.

Placing a detector must succeed for every option combination (obligation
`place_on_grid_succeeds/...`): a shape error raised by the real place_on_grid is reported as a
refuted obligation (and replayed on the real code), the identities of the variants that could be
placed are still checked.
"""

from __future__ import annotations

import itertools
import random

from props import common as K
from spec import C16_detlib as L
from vc import array as A
from vc.core import ctx, v_eq
from vc.harness import Task
from vc.obl import prove_arrays_equal, sym_int, sym_real

ID = "C16"
LEVEL = "proof"
TECHNIQUE = "symbolic execution of the real detector place_on_grid/update pairs on symbolic fields, grids and positions; cross-detector identities discharged by z3 / exact ring normal form; box extents enumerated"
MODULES = L.DET_MODULES
FILES = [
    "src/fdtdx/objects/detectors/energy.py",
    "src/fdtdx/objects/detectors/poynting_flux.py",
    "src/fdtdx/objects/detectors/field.py",
    "src/fdtdx/objects/detectors/phasor.py",
    "src/fdtdx/core/physics/metrics.py",
    "src/fdtdx/objects/detectors/detector.py",
    "src/fdtdx/core/grid.py",
]
FUNCTIONS = [
    "fdtdx.objects.detectors.detector.Detector.place_on_grid (volume weights)",
    "fdtdx.objects.detectors.detector.Detector._volume_weighted_spatial_mean",
    "fdtdx.objects.detectors.field.FieldDetector.update",
    "fdtdx.objects.detectors.energy.EnergyDetector.update (reduce_volume / full record)",
    "fdtdx.objects.detectors.phasor.PhasorDetector.place_on_grid/update/init_state",
    "fdtdx.objects.detectors.poynting_flux._resolve_face_area_weights",
    "fdtdx.objects.detectors.poynting_flux.PoyntingFluxDetector.place_on_grid/update/propagation_axis",
    "fdtdx.objects.detectors.poynting_flux.ClosedSurfacePoyntingFluxDetector.place_on_grid/update",
    "fdtdx.objects.detectors.poynting_flux.ClosedSurfacePhasorPoyntingFluxDetector.update (inverse clause)",
    "fdtdx.core.physics.metrics.compute_energy",
    "fdtdx.core.physics.metrics.compute_poynting_flux",
    "fdtdx.core.physics.metrics.net_poynting_flux_through_box",
    "fdtdx.core.grid.RectilinearGrid.cell_volume/face_area",
]
INLINED = ["fdtdx.objects.object.SimulationObject.place_on_grid/grid_shape", "fdtdx.objects.detectors.poynting_flux._slice_face", "fdtdx.core.misc.expand_to_3x3", "TreeClass.aset (pytreeclass)"]
STUBS = [
    "RectilinearGrid edge/width storage (vc.scene.SymGrid: arbitrary cell widths >= min spacing > 0; the real cell_volume/face_area run on them)",
    "SimulationConfig.time_steps_total returns a given small int (needed as a list length by place_on_grid); the time-step -> row table it produces is then replaced by an arbitrary integer table of symbolic length",
    "PhasorDetector._window_at_time_step_arr / _window_sum / _dft_stride replaced after placement by an arbitrary weight array / positive real / integer >= 1 (their construction is C17's subject)",
]
ASSUMPTIONS = [
    "the row index of the current step lies inside the record (0 <= table[t] < rows): contract of Detector.place_on_grid/init_state for active steps (C14)",
    "detector box extents enumerated (see task keys); everything else symbolic",
    "materials: inverse permittivity/permeability entries > 0 for the 1- and 3-component tiers; full tensors unconstrained except invertibility being irrelevant (same tensor on both sides)",
    "component tuples are given in canonical order (Ex,Ey,Ez,Hx,Hy,Hz)",
]
MIN_OBLIGATIONS = {"quick": 6000, "thorough": 30000}
LEVEL_TEXT = (
    "Deductive proof of every identity of the property between the records of real detectors (real place_on_grid and update) for ALL "
    "field, material, state, cell-width / spacing values, grid shapes, box positions, time steps and time tables; the extent of the detector "
    "box (which fixes the number of summands) is enumerated over small concrete extents, option switches are enumerated"
)
LEVEL_NOTE = (
    "box extent BOUNDED (quick: a stated subset of {1,2,3}^3, thorough: all of {1,2,3}^3 for volume detectors and all plane/box extents up to 3), "
    "values UNBOUNDED (exact real arithmetic instead of IEEE-754); grid = UniformGrid(symbolic spacing) or rectilinear with symbolic widths"
)


# ---------------------------------------------------------------------------------------
# helpers
# ---------------------------------------------------------------------------------------


def _note(inp, **kw):
    inp.note("spec", {k: str(v) for k, v in kw.items()})


def _frame(name, new, old, k):
    prove_arrays_equal(name, new, old, where=lambda idx: idx[0] != k)


def _kr(k):
    return A._raw_index(k)


def _eps_mu(tier_eps, tier_mu, sizes, inp):
    pos = lambda v, idx: v > 0  # noqa: E731

    def mk(name, tier):
        if tier == "scalar":
            return 1.0
        a = A.fresh_array(name, (tier, *sizes), fact=None if tier == 9 else pos)
        inp.array(name, a, default=1.0)
        return a

    return mk("inv_eps", tier_eps), mk("inv_mu", tier_mu)


# ---------------------------------------------------------------------------------------
# volume detectors
# ---------------------------------------------------------------------------------------


def _field_task(nonuniform, sizes, comps):
    def body(c, inp):
        from fdtdx.objects.detectors.field import FieldDetector

        _note(inp, kind="field", nonuniform=nonuniform, sizes=sizes, comps=comps)
        shape, cfg = L.make_cfg(nonuniform)
        sl = L.region(shape, sizes, inp)
        V = L.volume_fn(L.width_fn(cfg, sl))
        mk = lambda red: FieldDetector(name=f"fd{int(red)}", reduce_volume=red, components=comps, switch=L.on_switch()).place_on_grid(sl, cfg, L.key())  # noqa: E731
        (ds, dr), t_arr, t, k, rows = L.symbolic_schedule([mk(False), mk(True)], inp)
        (ds, dr), V = L.cut_volume_weights([ds, dr], V, sizes)
        E, H = L.fresh_fields(sizes, inp=inp)
        C = len(comps)
        S0 = A.fresh_array("S0", (rows, C, *sizes))
        R0 = A.fresh_array("R0", (rows, C))
        c.cover("pre")
        S1 = ds.update(t_arr, E, H, {"fields": S0}, None, None)["fields"]
        R1 = dr.update(t_arr, E, H, {"fields": R0}, None, None)["fields"]
        vtot = L.wsum(lambda x, y, z: 1, V, sizes)
        canon = [n for n in L.COMPONENTS if n in comps]
        for ci in range(C):
            spec = L.wsum(lambda x, y, z: S1.at_index((_kr(k), ci, x, y, z)), V, sizes) / vtot
            c.prove(f"reduced_row==volume_weighted_mean(spatial_row)[{canon[ci]}]", v_eq(R1.at_index((_kr(k), ci)), spec))
            src = (E if canon[ci][0] == "E" else H)["xyz".index(canon[ci][1])]
            prove_arrays_equal(f"spatial_row[{canon[ci]}]==field_component", S1[k][ci], src)
        _frame("frame:spatial_other_rows", S1, S0, k)
        _frame("frame:reduced_other_rows", R1, R0, k)

    return body


def _energy_task(nonuniform, sizes, tier_eps, tier_mu, cplx=False):
    def body(c, inp):
        from fdtdx.objects.detectors.energy import EnergyDetector

        _note(inp, kind="energy", nonuniform=nonuniform, sizes=sizes, eps=tier_eps, mu=tier_mu, complex=cplx)
        shape, cfg = L.make_cfg(nonuniform)
        sl = L.region(shape, sizes, inp)
        V = L.volume_fn(L.width_fn(cfg, sl))
        mk = lambda red: EnergyDetector(name=f"en{int(red)}", reduce_volume=red, switch=L.on_switch()).place_on_grid(sl, cfg, L.key())  # noqa: E731
        (ds, dr), t_arr, t, k, rows = L.symbolic_schedule([mk(False), mk(True)], inp)
        (ds, dr), V = L.cut_volume_weights([ds, dr], V, sizes)
        E, H = L.fresh_fields(sizes, "complex" if cplx else "real", inp=inp)
        ie, im = _eps_mu(tier_eps, tier_mu, sizes, inp)
        S0 = A.fresh_array("S0", (rows, *sizes))
        R0 = A.fresh_array("R0", (rows, 1))
        c.cover("pre")
        S1 = ds.update(t_arr, E, H, {"energy": S0}, ie, im)["energy"]
        R1 = dr.update(t_arr, E, H, {"energy": R0}, ie, im)["energy"]
        spec = L.wsum(lambda x, y, z: S1.at_index((_kr(k), x, y, z)), V, sizes)
        c.prove("reduced_row==volume_weighted_sum(spatial_row)", v_eq(R1.at_index((_kr(k), 0)), spec))
        _frame("frame:spatial_other_rows", S1, S0, k)
        _frame("frame:reduced_other_rows", R1, R0, k)

    return body


def _phasor_pair(cfg, sl, comps, nfreq, inverse, mode, reduce_flags, inp):
    """real PhasorDetectors (placed by the real place_on_grid, stride 1, no apodization) whose
    window table / window sum / stride are then generalised to arbitrary symbolic values"""
    from fdtdx.core.wavelength import WaveCharacter
    from fdtdx.objects.detectors.phasor import PhasorDetector

    c = ctx()
    freqs = [sym_real(f"freq{i}") for i in range(nfreq)]
    for i, f in enumerate(freqs):
        inp.scalar(f"freq{i}", f)
    wcs = tuple(WaveCharacter(frequency=f) for f in freqs)
    T = sym_int("Tw", lo=1)
    win = A.fresh_array("window", (T,))
    wsum_ = sym_real("window_sum", lo_strict=0)
    stride = sym_int("stride", lo=1)
    inp.scalar("window_sum", wsum_)
    inp.scalar("stride", stride)
    dets = []
    for j, (red, inv) in enumerate(reduce_flags):
        d = PhasorDetector(name=f"ph{j}", wave_characters=wcs, reduce_volume=red, components=comps, inverse=inv, scaling_mode=mode, switch=L.on_switch())
        d = d.place_on_grid(sl, cfg, L.key())
        d = d.aset("_window_at_time_step_arr", win, create_new_ok=True)
        d = d.aset("_window_sum", wsum_, create_new_ok=True)
        d = d.aset("_dft_stride", stride, create_new_ok=True)
        dets.append(d)
    return dets, T, win


def _phasor_task(nonuniform, sizes, comps, nfreq, mode, inverse):
    def body(c, inp):
        _note(inp, kind="phasor", nonuniform=nonuniform, sizes=sizes, comps=comps, nfreq=nfreq, mode=mode, inverse=inverse)
        shape, cfg = L.make_cfg(nonuniform)
        sl = L.region(shape, sizes, inp)
        V = L.volume_fn(L.width_fn(cfg, sl))
        dets, T, win = _phasor_pair(cfg, sl, comps, nfreq, inverse, mode, [(False, inverse), (True, inverse)], inp)
        (ds, dr), V = L.cut_volume_weights(dets, V, sizes)
        t = sym_int("t", lo=0)
        c.assume((t + 1 <= T).z)
        inp.scalar("t", t)
        t_arr = A.SymArray((), lambda idx: t, "int", memo=False)
        E, H = L.fresh_fields(sizes, inp=inp)
        C = len(comps)
        # both records start at zero (real init_state)
        for d, shp in ((ds, (1, nfreq, C, *sizes)), (dr, (1, nfreq, C))):
            z = d.init_state()
            c.prove(f"init_state:keys[{d.name}]", list(z) == ["phasor"])
            prove_arrays_equal(f"init_state:zeros[{d.name}]", z["phasor"], A.zeros(shp, "complex"))
        S0 = A.fresh_array("S0", (1, nfreq, C, *sizes), "complex")
        R0 = A.fresh_array("R0", (1, nfreq, C), "complex")
        c.cover("pre")
        S1 = ds.update(t_arr, E, H, {"phasor": S0}, None, None)["phasor"]
        R1 = dr.update(t_arr, E, H, {"phasor": R0}, None, None)["phasor"]
        vtot = L.wsum(lambda x, y, z: 1, V, sizes)
        dS = S1 - S0
        for f in range(nfreq):
            for ci in range(C):
                spec = L.wsum(lambda x, y, z: dS.at_index((0, f, ci, x, y, z)), V, sizes) / vtot
                c.prove(f"reduced_increment==volume_weighted_mean(spatial_increment)[f{f},c{ci}]", v_eq(R1.at_index((0, f, ci)) - R0.at_index((0, f, ci)), spec))

    return body


def _inverse_task(sizes, comps, nfreq, mode, red, nonuniform=False):
    def body(c, inp):
        _note(inp, kind="inverse", nonuniform=nonuniform, sizes=sizes, comps=comps, nfreq=nfreq, mode=mode, reduce=red)
        shape, cfg = L.make_cfg(nonuniform)
        sl = L.region(shape, sizes, inp)
        dets, T, win = _phasor_pair(cfg, sl, comps, nfreq, None, mode, [(red, False), (red, True)], inp)
        df, di = dets
        t = sym_int("t", lo=0)
        c.assume((t + 1 <= T).z)
        inp.scalar("t", t)
        t_arr = A.SymArray((), lambda idx: t, "int", memo=False)
        E, H = L.fresh_fields(sizes, inp=inp)
        C = len(comps)
        shp = (1, nfreq, C) if red else (1, nfreq, C, *sizes)
        P0 = A.fresh_array("P0", shp, "complex")
        c.cover("pre")
        Pf = df.update(t_arr, E, H, {"phasor": P0}, None, None)["phasor"]
        Pi = di.update(t_arr, E, H, {"phasor": P0}, None, None)["phasor"]
        prove_arrays_equal("inverse_increment==-forward_increment", Pi - P0, -(Pf - P0))

    return body


def _inverse_closed_task(sizes, mode, axes, nonuniform=False):
    def body(c, inp):
        from fdtdx.core.wavelength import WaveCharacter
        from fdtdx.objects.detectors.poynting_flux import ClosedSurfacePhasorPoyntingFluxDetector as CSP

        _note(inp, kind="inverse_closed", nonuniform=nonuniform, sizes=sizes, mode=mode, axes=axes)
        shape, cfg = L.make_cfg(nonuniform)
        sl = L.region(shape, sizes, inp)
        f0 = sym_real("freq0")
        inp.scalar("freq0", f0)
        T = sym_int("Tw", lo=1)
        win = A.fresh_array("window", (T,))
        wsum_ = sym_real("window_sum", lo_strict=0)
        stride = sym_int("stride", lo=1)
        dets = []
        for inv in (False, True):
            d = CSP(name=f"cs{int(inv)}", wave_characters=(WaveCharacter(frequency=f0),), inverse=inv, scaling_mode=mode, axes=axes, switch=L.on_switch())
            d = d.place_on_grid(sl, cfg, L.key())
            d = d.aset("_window_at_time_step_arr", win, create_new_ok=True).aset("_window_sum", wsum_, create_new_ok=True).aset("_dft_stride", stride, create_new_ok=True)
            dets.append(d)
        df, di = dets
        t = sym_int("t", lo=0)
        c.assume((t + 1 <= T).z)
        t_arr = A.SymArray((), lambda idx: t, "int", memo=False)
        E, H = L.fresh_fields(sizes, inp=inp)
        active = tuple(axes) if axes is not None else tuple(a for a in range(3) if sizes[a] > 1)
        st = {}
        for a in active:
            plane = tuple(1 if i == a else sizes[i] for i in range(3))
            for side in ("min", "max"):
                st[f"phasor_axis{a}_{side}"] = A.fresh_array(f"P{a}{side}", (1, 1, 6, *plane), "complex")
        c.cover("pre")
        nf = df.update(t_arr, E, H, dict(st), None, None)
        ni = di.update(t_arr, E, H, dict(st), None, None)
        c.prove("same_face_records", sorted(nf) == sorted(st) and sorted(ni) == sorted(st))
        for key_ in sorted(st):
            prove_arrays_equal(f"inverse_increment==-forward_increment[{key_}]", ni[key_] - st[key_], -(nf[key_] - st[key_]))

    return body


# ---------------------------------------------------------------------------------------
# Poynting flux detectors
# ---------------------------------------------------------------------------------------


def _flux_dets(cfg, sl, fixed_axis, variants):
    from fdtdx.objects.detectors.poynting_flux import PoyntingFluxDetector

    out = {}
    c = ctx()
    failed = {}
    for v in variants:
        direction, red, keep = v
        d = PoyntingFluxDetector(name=f"pf{direction}{int(red)}{int(keep)}", direction=direction, reduce_volume=red, keep_all_components=keep, fixed_propagation_axis=fixed_axis, switch=L.on_switch())
        try:
            out[v] = d.place_on_grid(sl, cfg, L.key())
        except Exception as e:  # noqa: BLE001  placing a detector on a valid box must not fail
            if not L.is_repo_exception(e):
                raise
            failed.setdefault(keep, []).append((v, f"{type(e).__name__}: {e}"))
    for keep in (False, True):
        if keep in failed:
            c.inputs.note("exception", [f"direction={v[0]} reduce_volume={v[1]}: {msg}" for v, msg in failed[keep]])
        # one obligation per configuration: every option combination can be placed
        c.prove(f"place_on_grid_succeeds/{'all' if keep else 'single'}_components", keep not in failed)
    return out


def _flux_state(rows, sizes, red, keep, name):
    if keep:
        shp = (3,) if red else (3, *sizes)
    else:
        shp = (1,) if red else tuple(sizes)
    return A.fresh_array(name, (rows, *shp))


def _flux_task(nonuniform, sizes, fixed_axis, cplx=False):
    """all eight option combinations on one plane / box; p = propagation axis"""

    def body(c, inp):
        _note(inp, kind="flux", nonuniform=nonuniform, sizes=sizes, fixed_axis=fixed_axis, complex=cplx)
        shape, cfg = L.make_cfg(nonuniform)
        sl = L.region(shape, sizes, inp)
        W = L.width_fn(cfg, sl)
        variants = list(itertools.product("+-", (False, True), (False, True)))
        dets = _flux_dets(cfg, sl, fixed_axis, variants)
        keys = list(dets)  # variants whose placement succeeded (a failure is already a refuted obligation)
        placed, t_arr, t, k, rows = L.symbolic_schedule([dets[v] for v in keys], inp)
        dets = dict(zip(keys, placed))
        p = fixed_axis if fixed_axis is not None else list(sizes).index(1)
        for v in list(keys):
            # an explicitly fixed axis (0 included) wins over the shape; otherwise the size-one axis
            ok, ax = L.guarded(f"no_exception_on_valid_input/propagation_axis[{v[0]},reduce={v[1]},all={v[2]}]", lambda d=dets[v]: d.propagation_axis)
            if ok:
                c.prove(f"propagation_axis[{v[0]},reduce={v[1]},all={v[2]}]", ax == p)
        E, H = L.fresh_fields(sizes, "complex" if cplx else "real", inp=inp)
        c.cover("pre")
        new, old = {}, {}
        for v in keys:
            old[v] = _flux_state(rows, sizes, v[1], v[2], "st" + v[0].replace("+", "p").replace("-", "m") + f"{int(v[1])}{int(v[2])}")
            new[v] = dets[v].update(t_arr, E, H, {"poynting_flux": old[v]}, None, None)["poynting_flux"]
            _frame(f"frame:other_rows[{v[0]},reduce={v[1]},all={v[2]}]", new[v], old[v], k)
        kr = _kr(k)
        have = lambda *vs: all(v in new for v in vs)  # noqa: E731
        for d in "+-":
            # reduced == area-weighted sum of spatial
            if have((d, False, False), (d, True, False)):
                Ap = L.area_fn(W, p)
                spec = L.wsum(lambda x, y, z: new[(d, False, False)].at_index((kr, x, y, z)), Ap, sizes)
                c.prove(f"reduced==area_weighted_sum(spatial)[{d},single]", v_eq(new[(d, True, False)].at_index((kr, 0)), spec))
            if have((d, False, True), (d, True, True)):
                for comp in range(3):
                    Ac = L.area_fn(W, comp)
                    spec = L.wsum(lambda x, y, z: new[(d, False, True)].at_index((kr, comp, x, y, z)), Ac, sizes)
                    c.prove(f"reduced==area_weighted_sum(spatial)[{d},all,c{comp}]", v_eq(new[(d, True, True)].at_index((kr, comp)), spec))
            # single component == propagation component of all components
            if have((d, False, False), (d, False, True)):
                prove_arrays_equal(f"single==all[p][{d},spatial]", new[(d, False, False)][k], new[(d, False, True)][k][p])
            if have((d, True, False), (d, True, True)):
                c.prove(f"single==all[p][{d},reduced]", v_eq(new[(d, True, False)].at_index((kr, 0)), new[(d, True, True)].at_index((kr, p))))
        for red in (False, True):
            for keep in (False, True):
                if have(("-", red, keep), ("+", red, keep)):
                    prove_arrays_equal(f"minus==-plus[reduce={red},all={keep}]", new[("-", red, keep)][k], -new[("+", red, keep)][k])

    return body


def _closed_task(nonuniform, sizes, axes, orientation, cplx=False):
    def body(c, inp):
        from fdtdx.objects.detectors.poynting_flux import ClosedSurfacePoyntingFluxDetector, PoyntingFluxDetector

        _note(inp, kind="closed", nonuniform=nonuniform, sizes=sizes, axes=axes, orientation=orientation, complex=cplx)
        shape, cfg = L.make_cfg(nonuniform)
        sl = L.region(shape, sizes, inp)
        cs = ClosedSurfacePoyntingFluxDetector(name="cs", orientation=orientation, axes=axes, switch=L.on_switch()).place_on_grid(sl, cfg, L.key())
        active = tuple(axes) if axes is not None else (0, 1, 2)
        faces = {}
        for a in active:
            for side in ("min", "max"):
                fs = list(sl)
                fs[a] = (sl[a][0], sl[a][0] + 1) if side == "min" else (sl[a][1] - 1, sl[a][1])
                d = PoyntingFluxDetector(name=f"face{a}{side}", direction="+", reduce_volume=True, fixed_propagation_axis=a, switch=L.on_switch())
                faces[(a, side)] = d.place_on_grid(tuple(fs), cfg, L.key())
        fkeys = list(faces)
        placed, t_arr, t, k, rows = L.symbolic_schedule([cs, *[faces[f] for f in fkeys]], inp)
        cs = placed[0]
        faces = dict(zip(fkeys, placed[1:]))
        E, H = L.fresh_fields(sizes, "complex" if cplx else "real", inp=inp)
        c.cover("pre")
        C0 = A.fresh_array("C0", (rows, 1))
        C1 = cs.update(t_arr, E, H, {"poynting_flux": C0}, None, None)["poynting_flux"]
        _frame("frame:other_rows", C1, C0, k)
        kr = _kr(k)
        total = 0
        for (a, side), d in faces.items():
            ix = [slice(None)] * 4
            ix[a + 1] = slice(0, 1) if side == "min" else slice(sizes[a] - 1, sizes[a])
            F0 = A.fresh_array(f"F{a}{side}", (rows, 1))
            F1 = d.update(t_arr, E[tuple(ix)], H[tuple(ix)], {"poynting_flux": F0}, None, None)["poynting_flux"]
            total = total + (1 if side == "max" else -1) * F1.at_index((kr, 0))
        if orientation == "inward":
            total = -total
        c.prove("closed_surface==signed_sum_of_face_fluxes", v_eq(C1.at_index((kr, 0)), total))

    return body


# ---------------------------------------------------------------------------------------
# task table
# ---------------------------------------------------------------------------------------

ALL_SIZES = list(itertools.product((1, 2, 3), repeat=3))
COMP_SETS_QUICK = [("Ex", "Ey", "Ez", "Hx", "Hy", "Hz"), ("Ez",), ("Ey", "Hx"), ("Ex", "Ez", "Hy", "Hz")]


def _all_comp_sets():
    out = []
    for r in range(1, 7):
        out += list(itertools.combinations(L.COMPONENTS, r))
    return out


def _lab(sizes):
    return "x".join(str(s) for s in sizes)


def _configs(tier, seed):
    rnd = random.Random(seed)
    out = {}
    thorough = tier == "thorough"
    vol_sizes = ALL_SIZES if thorough else [(1, 1, 1), (2, 1, 1), (1, 3, 1), (2, 2, 2), (3, 2, 1), (1, 2, 3), (3, 3, 2), (3, 3, 3)] + rnd.sample(ALL_SIZES, 3)
    vol_sizes = sorted(set(vol_sizes))
    comp_sets = _all_comp_sets() if thorough else COMP_SETS_QUICK
    grids = [(False, "uni"), (True, "rect")]
    # field
    for i, sizes in enumerate(vol_sizes):
        for nonuni, gl in grids:
            sets = comp_sets if thorough and sizes in ((2, 2, 2), (1, 2, 3)) else [COMP_SETS_QUICK[(i + j) % len(COMP_SETS_QUICK)] for j in range(2)]
            for comps in sets:
                out[f"field/{gl}/{_lab(sizes)}/{'+'.join(comps)}"] = (_field_task(nonuni, sizes, comps))
    # energy
    tiers = [(3, "scalar"), (1, 3), (3, 3), (9, 9), (9, "scalar"), (1, 1)]
    for i, sizes in enumerate(vol_sizes):
        for nonuni, gl in grids:
            for j, (te, tm) in enumerate(tiers if thorough else [tiers[(i + j) % len(tiers)] for j in range(2)]):
                if te == 9 and sizes[0] * sizes[1] * sizes[2] > 8 and not thorough:
                    te, tm = 3, 3
                cplx = (i + j) % 3 == 0
                out[f"energy/{gl}/{_lab(sizes)}/e{te}m{tm}{'c' if cplx else ''}"] = (_energy_task(nonuni, sizes, te, tm, cplx))
    # phasor (reduced increment == weighted mean of spatial increment)
    for i, sizes in enumerate(vol_sizes):
        for nonuni, gl in grids:
            mode = ("continuous", "pulse")[(i + int(nonuni)) % 2]
            inverse = (i // 2) % 2 == 1
            comps = COMP_SETS_QUICK[i % len(COMP_SETS_QUICK)]
            nfreq = 1 + (i % 2)
            combos = [(comps, nfreq, mode, inverse)]
            if thorough:
                combos = sorted({(cs, 1 + int(m == "pulse"), m, inv) for cs in (COMP_SETS_QUICK[0], comps) for m in ("continuous", "pulse") for inv in (False, True)})
            for cs_, nf, m, inv in combos:
                out[f"phasor/{gl}/{_lab(sizes)}/{'+'.join(cs_)}/f{nf}/{m}/{'inv' if inv else 'fwd'}"] = (_phasor_task(nonuni, sizes, cs_, nf, m, inv))
    # inverse phasor detectors
    inv_sizes = [(1, 1, 1), (2, 1, 3), (2, 2, 2)] if not thorough else [(1, 1, 1), (2, 1, 3), (2, 2, 2), (3, 3, 3), (1, 3, 1)]
    for sizes in inv_sizes:
        for m in ("continuous", "pulse"):
            for red in (False, True):
                for comps in (COMP_SETS_QUICK[0], COMP_SETS_QUICK[2]):
                    out[f"inverse/phasor/{_lab(sizes)}/{'+'.join(comps)}/{m}/{'reduced' if red else 'spatial'}"] = (_inverse_task(sizes, comps, 2, m, red, nonuniform=red))
    for sizes, axes in [((2, 2, 2), None), ((3, 1, 2), None), ((2, 3, 1), (0, 2)), ((1, 1, 1), (0, 1, 2))]:
        for m in ("continuous", "pulse"):
            out[f"inverse/closed_phasor/{_lab(sizes)}/axes{axes}/{m}"] = (_inverse_closed_task(sizes, m, axes))
    # plane flux detectors: exactly one size-one axis (automatic axis) and fixed axes on general boxes
    planes = [s for s in ALL_SIZES if sum(1 for v in s if v == 1) == 1]
    q_planes = [(1, 2, 3), (3, 1, 2), (2, 3, 1), (1, 3, 3), (2, 1, 2), (3, 3, 1)]
    for i, sizes in enumerate(planes if thorough else q_planes):
        for nonuni, gl in grids:
            cplx = (i + int(nonuni)) % 3 == 0
            out[f"flux/{gl}/{_lab(sizes)}/auto{'c' if cplx else ''}"] = (_flux_task(nonuni, sizes, None, cplx))
    fixed = [((1, 1, 1), 0), ((1, 1, 1), 1), ((1, 1, 1), 2), ((1, 1, 2), 0), ((1, 1, 2), 1), ((2, 1, 1), 2), ((2, 2, 2), 0), ((2, 2, 2), 1), ((2, 2, 2), 2)]
    # a fixed axis on planes that are NOT normal to it (the size-one axis must be ignored), every axis
    fixed += [((2, 1, 3), 0), ((3, 2, 1), 0), ((1, 2, 3), 1), ((2, 3, 1), 1), ((1, 3, 2), 2), ((3, 1, 2), 2)]
    # ... and on the plane normal to it
    fixed += [((1, 2, 2), 0), ((2, 1, 2), 1), ((2, 2, 1), 2)]
    if thorough:
        fixed = [(s, a) for s in ALL_SIZES for a in range(3) if s[0] * s[1] * s[2] <= 12]
    for sizes, a in fixed:
        for nonuni, gl in grids:
            out[f"flux/{gl}/{_lab(sizes)}/fixed{a}"] = (_flux_task(nonuni, sizes, a))
    # closed surface
    boxes = [(2, 2, 2), (3, 2, 2), (2, 1, 3), (1, 1, 1), (1, 3, 1), (3, 3, 3)] if not thorough else ALL_SIZES
    axes_opts = [None, (0, 1, 2), (0,), (1, 2), (2, 0)]
    for i, sizes in enumerate(boxes):
        for nonuni, gl in grids:
            for j, axes in enumerate(axes_opts if thorough else [None, axes_opts[1 + (i % 4)]]):
                for orientation in ("outward", "inward") if thorough or j == 0 else (("outward", "inward")[i % 2],):
                    cplx = (i + j) % 4 == 0
                    out[f"closed/{gl}/{_lab(sizes)}/axes{axes}/{orientation}{'/c' if cplx else ''}"] = (_closed_task(nonuni, sizes, axes, orientation, cplx))
    return out


def tasks(tier, seed):
    return L.grouped(_configs(tier, seed), 20 if tier == "quick" else 30)


# ---------------------------------------------------------------------------------------
# replay: the failing identity on the real code under real JAX
# ---------------------------------------------------------------------------------------


def _real_setup(spec, witness, seed):
    import numpy as np

    sizes = tuple(spec["sizes"])
    rng = np.random.default_rng(seed)
    lo = [int(rng.integers(0, 3)) for _ in range(3)]
    gshape = tuple(l + s + int(rng.integers(0, 2)) for l, s in zip(lo, sizes))
    cfg = L.real_cfg(bool(spec.get("nonuniform")), gshape, time_steps=4, seed=seed)
    sl = tuple((l, l + s) for l, s in zip(lo, sizes))
    return sizes, cfg, sl, rng


def _rand_fields(rng, sizes, cplx, witness, use_witness):
    import jax.numpy as jnp
    import numpy as np

    from vc.harness import witness_arrays_to_numpy

    wa = witness_arrays_to_numpy(witness or {}) if use_witness else {}
    out = []
    for n in ("E", "H"):
        a = wa.get(n)
        if a is None or a.shape != (3, *sizes) or not np.any(a):
            a = rng.normal(size=(3, *sizes)) + (1j * rng.normal(size=(3, *sizes)) if cplx else 0)
        out.append(jnp.asarray(a))
    return out


class RealCodeRaised(Exception):
    pass


def _identity_deviations(spec, cfg, sl, sizes, E, H, rng):
    """relative deviations of the identities of one configuration on the REAL detectors"""
    import jax
    import jax.numpy as jnp
    import numpy as np

    from fdtdx.core.switch import OnOffSwitch
    from fdtdx.core.wavelength import WaveCharacter
    from fdtdx.objects.detectors.energy import EnergyDetector
    from fdtdx.objects.detectors.field import FieldDetector
    from fdtdx.objects.detectors.phasor import PhasorDetector
    from fdtdx.objects.detectors.poynting_flux import ClosedSurfacePhasorPoyntingFluxDetector, ClosedSurfacePoyntingFluxDetector, PoyntingFluxDetector

    kind = spec["kind"]
    kk = jax.random.PRNGKey(0)
    sw = OnOffSwitch(fixed_on_time_steps=[0, 2])
    tstep = jnp.asarray(2, dtype=jnp.int32)  # second recorded step -> row 1 of time-domain records
    w = L.real_widths(cfg, sl)
    V = w[0][:, None, None] * w[1][None, :, None] * w[2][None, None, :]

    def area(a):
        t = [b for b in range(3) if b != a]
        out = np.ones(sizes)
        for b in t:
            out = out * w[b].reshape([-1 if i == b else 1 for i in range(3)])
        return out

    def rel(a, b):
        a, b = np.asarray(a), np.asarray(b)
        if a.shape != b.shape:
            return float("inf")
        return float(np.max(np.abs(a - b)) / max(1e-300, np.max(np.abs(a)), np.max(np.abs(b)))) if a.size else 0.0

    def run(det, box=None, fields=None, ie=None, im=None):
        try:
            det = det.place_on_grid(box or sl, cfg, kk)
            e, h = fields or (E, H)
            return det.update(tstep, e, h, det.init_state(), ie, im)
        except Exception as e:  # noqa: BLE001
            opts = ", ".join(f"{n}={getattr(det, n)!r}" for n in ("reduce_volume", "keep_all_components", "direction", "fixed_propagation_axis", "axes") if hasattr(det, n))
            raise RealCodeRaised(f"{type(det).__name__}({opts}) on box {box or sl}: {type(e).__name__}: {e}") from e

    devs = {}
    if kind in ("field", "energy", "phasor"):
        # Lemma A on the real code: the cached volume weights are the physical cell volumes
        try:
            d0 = FieldDetector(name="w", switch=sw, dtype=jnp.float64).place_on_grid(sl, cfg, kk)
        except Exception as e:  # noqa: BLE001
            raise RealCodeRaised(f"FieldDetector.place_on_grid on box {sl}: {type(e).__name__}: {e}") from e
        devs["cached volume weights vs wx*wy*wz"] = rel(np.asarray(d0._cached_cell_volume_weights, dtype=float) * np.ones(sizes), V)
    if kind == "field":
        comps = tuple(spec["comps"])
        s = run(FieldDetector(name="a", components=comps, switch=sw, dtype=jnp.float64))
        r = run(FieldDetector(name="b", components=comps, switch=sw, dtype=jnp.float64, reduce_volume=True))
        devs["reduced vs weighted mean"] = rel(r["fields"][1], (np.asarray(s["fields"][1]) * V).sum(axis=(1, 2, 3)) / V.sum())
        devs["untouched row"] = float(np.max(np.abs(np.asarray(r["fields"][0]))))
    elif kind == "energy":

        def mat(tier):
            if tier == "scalar":
                return 1.0
            a = rng.uniform(0.2, 1.0, size=(tier, *sizes))
            if tier == 9:
                a = a * 0.1
                for d in (0, 4, 8):
                    a[d] += 1.0
            return jnp.asarray(a)

        ie, im = mat(spec["eps"]), mat(spec["mu"])
        s = run(EnergyDetector(name="a", switch=sw, dtype=jnp.float64), ie=ie, im=im)
        r = run(EnergyDetector(name="b", switch=sw, dtype=jnp.float64, reduce_volume=True), ie=ie, im=im)
        devs["reduced vs weighted sum"] = rel(r["energy"][1, 0], (np.asarray(s["energy"][1]) * V).sum())
    elif kind in ("phasor", "inverse"):
        comps = tuple(spec["comps"])
        wcs = tuple(WaveCharacter(wavelength=1e-6 * (1 + i)) for i in range(int(spec["nfreq"])))
        mk = lambda red, inv: np.asarray(run(PhasorDetector(name=f"p{int(red)}{int(inv)}", wave_characters=wcs, components=comps, switch=sw, dtype=jnp.complex128, reduce_volume=red, inverse=inv, scaling_mode=spec["mode"]))["phasor"])  # noqa: E731
        if kind == "phasor":
            inv = bool(spec["inverse"])
            s, r = mk(False, inv), mk(True, inv)
            devs["reduced vs weighted mean"] = rel(r[0], (s[0] * V).sum(axis=(2, 3, 4)) / V.sum())
        else:
            red = bool(spec["reduce"])
            devs["inverse vs -forward"] = rel(mk(red, True), -mk(red, False))
    elif kind == "inverse_closed":
        mk = lambda inv: run(ClosedSurfacePhasorPoyntingFluxDetector(name=f"c{int(inv)}", wave_characters=(WaveCharacter(wavelength=1e-6),), switch=sw, dtype=jnp.complex128, inverse=inv, scaling_mode=spec["mode"], axes=spec["axes"]))  # noqa: E731
        f, i = mk(False), mk(True)
        for kname in f:
            devs[f"inverse vs -forward {kname}"] = rel(i[kname], -np.asarray(f[kname]))
    elif kind == "flux":
        fa = spec["fixed_axis"]
        p = fa if fa is not None else list(sizes).index(1)
        rec = {}
        for d in "+-":
            for red in (False, True):
                for keep in (False, True):
                    rec[(d, red, keep)] = np.asarray(run(PoyntingFluxDetector(name=f"f{d}{red}{keep}", direction=d, reduce_volume=red, keep_all_components=keep, fixed_propagation_axis=fa, switch=sw, dtype=jnp.float64))["poynting_flux"][1])
        for d in "+-":
            devs[f"reduced vs area sum {d}"] = rel(rec[(d, True, False)][0], (rec[(d, False, False)] * area(p)).sum())
            devs[f"reduced all vs area sum {d}"] = rel(rec[(d, True, True)], np.array([(rec[(d, False, True)][cc] * area(cc)).sum() for cc in range(3)]))
            devs[f"single vs all[p] {d}"] = max(rel(rec[(d, False, False)], rec[(d, False, True)][p]), rel(rec[(d, True, False)][0], rec[(d, True, True)][p]))
        for red in (False, True):
            for keep in (False, True):
                devs[f"minus vs -plus {red},{keep}"] = rel(rec[("-", red, keep)], -rec[("+", red, keep)])
    elif kind == "closed":
        axes, orientation = spec["axes"], spec["orientation"]
        cs = run(ClosedSurfacePoyntingFluxDetector(name="cs", orientation=orientation, axes=axes, switch=sw, dtype=jnp.float64))
        total = 0.0
        for a in axes if axes is not None else (0, 1, 2):
            for side in ("min", "max"):
                fs = list(sl)
                fs[a] = (sl[a][0], sl[a][0] + 1) if side == "min" else (sl[a][1] - 1, sl[a][1])
                ix = [slice(None)] * 4
                ix[a + 1] = slice(0, 1) if side == "min" else slice(sizes[a] - 1, sizes[a])
                d = PoyntingFluxDetector(name=f"f{a}{side}", direction="+", reduce_volume=True, fixed_propagation_axis=a, switch=sw, dtype=jnp.float64)
                v = run(d, box=tuple(fs), fields=(E[tuple(ix)], H[tuple(ix)]))["poynting_flux"][1, 0]
                total += float(v) * (1 if side == "max" else -1)
        if orientation == "inward":
            total = -total
        devs["closed vs signed face sum"] = rel(cs["poynting_flux"][1, 0], total)
    else:
        raise KeyError(kind)
    return devs


_REPLAY_CACHE = {}


def replay(key, obligation, witness):
    """memoised per configuration (many obligations of one configuration share one real-code run)"""
    import json

    ck = json.dumps(((witness or {}).get("notes") or {}), sort_keys=True, default=str)
    if ck not in _REPLAY_CACHE:
        _REPLAY_CACHE[ck] = _replay(key, obligation, witness)
    return _REPLAY_CACHE[ck]


def _replay(key, obligation, witness):
    """Evaluate the identities of the failing configuration on the REAL detectors (real
    place_on_grid / init_state / update, real JAX, float64) for the witness fields and for seeded
    random fields, grids and box positions; an exception raised by the real code also reproduces."""
    spec = K.parse_spec((witness or {}).get("notes"))
    if not spec or "kind" not in spec:
        return False, "no configuration recorded in the witness"
    details = []
    for attempt in range(4):
        sizes, cfg, sl, rng = _real_setup(spec, witness, attempt)
        E, H = _rand_fields(rng, sizes, bool(spec.get("complex")), witness, attempt == 0)
        tag = f"attempt {attempt} box={sl} grid={'rectilinear' if spec.get('nonuniform') else 'uniform'}"
        try:
            devs = _identity_deviations(spec, cfg, sl, sizes, E, H, rng)
        except RealCodeRaised as e:
            return True, "\n".join([*details, f"{tag}: the real code raised: {e}"])
        details.append(f"{tag}: " + ", ".join(f"{n}: {v:.3e}" for n, v in devs.items()))
        if any(v > 1e-9 for v in devs.values()):
            return True, "identity violated on the real code:\n" + "\n".join(details)
    return False, "\n".join(details)
