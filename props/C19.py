"""C19  Discretization picks the nearest allowed material.

Contracts (top-level postconditions are the property text, helper preconditions come from the code)

  ClosestIndex.__call__(params)                       for every array x in params, every voxel idx
      ensures  no exception
      ensures  out.shape == x.shape
      ensures  out[idx] = k  with  k an integer in [0, M-1]  and
               mapping_from_inverse_permittivities=False:  |x[idx]-k| <= |x[idx]-j|          for all j in [0, M-1]
               ... =True, isotropic materials:             |x[idx]-1/eps_(k)| <= |x[idx]-1/eps_(j)| for all j,
               eps_(0) <= eps_(1) <= ... the permittivities in ascending order (the library-wide material
               index convention, materials.compute_ordered_material_name_tuples); ties may go either way
      call-site obligation:  straight_through_estimator is called once per array with x = the input array
               itself and a y of the input's shape (its documented precondition), and its result is returned

  straight_through_estimator(x, y)
      ensures  out == y                                                   (forward value)
      ensures  with the outputs of stop_gradient held fixed (that IS the meaning of stop_gradient for
               differentiation), out(x+d, y+e) - out(x, y) == d for arbitrary increments d, e:
               the map is affine in x with slope exactly 1 and does not depend on y differentially
               => cotangents pass through to x unchanged, nothing flows through y

Material sets are SYMBOLIC (arbitrary positive permittivities); the number of materials M in 2..5, the
material kind (isotropic / diagonal) and -- for M >= 4 -- the order in which the dictionary lists the
materials relative to their sorted order are enumerated.  Array shapes and values are symbolic.
The real-JAX autodiff check (jax.vjp on concrete cases) is a bounded stand-in and labelled as such.
"""

from __future__ import annotations

import itertools
import random
import types

from vc import array as A
from vc.core import ctx, sym_max, sym_min, v_eq
from vc.harness import Task
from vc.obl import index_cases, prove_arrays_equal, prove_pointwise, prove_same_shape, sym_int, sym_real

ID = "C19"
LEVEL = "proof"
TECHNIQUE = "symbolic execution of the real ClosestIndex.__call__ / compute_allowed_permittivities / straight_through_estimator on symbolic shapes, values and permittivities; shape (broadcasting) obligations and nearest-value postcondition discharged by z3; gradient pass-through as an exact finite-difference identity with stop_gradient outputs frozen"
MODULES = ["fdtdx.objects.device.parameters.discretization", "fdtdx.materials", "fdtdx.core.jax.ste"]
FILES = ["src/fdtdx/objects/device/parameters/discretization.py", "src/fdtdx/materials.py", "src/fdtdx/core/jax/ste.py"]
FUNCTIONS = [
    "fdtdx.objects.device.parameters.discretization.ClosestIndex.__call__",
    "fdtdx.core.jax.ste.straight_through_estimator",
]
INLINED = [
    "fdtdx.materials.Material.__init__ / _normalize_material_property / is_isotropic_permittivity / is_diagonally_anisotropic_permittivity",
    "fdtdx.materials.compute_allowed_permittivities / compute_ordered_material_name_tuples",
    "fdtdx.objects.device.parameters.transform.ParameterTransformation.init_module",
]
STUBS = ["jax.lax.stop_gradient: identity on values; for the gradient clause its outputs are held fixed while the input is perturbed (zero tangent)"]
ASSUMPTIONS = [
    "permittivities are positive reals; isotropic materials are given by one scalar, diagonal ones by three",
    "mapping_from_inverse_permittivities=True is specified by the property for isotropic materials only; diagonal/full tensors with that flag are outside the property's statement and not checked",
    "for M >= 4 materials the permittivities are assumed pairwise distinct and every enumerated dictionary order relative to the sorted order is a separate task (all orders in the thorough tier); for M <= 3 ties and all orders are covered symbolically",
    "'passes gradients through unchanged' is proved as: straight_through_estimator(x, y) is x + const once stop_gradient outputs are held fixed (slope exactly 1 in x, 0 in y), it is applied to the unmodified input, and its result is returned; real reverse-mode autodiff is exercised only by the bounded jax.vjp stand-in",
    "rounding ties (x exactly half-way) may go to either neighbour: both are nearest",
]
MIN_OBLIGATIONS = {"quick": 120, "thorough": 700}
LEVEL_TEXT = "Deductive proof over all array shapes (rank 1-3, incl. singleton axes), all input values and all positive permittivity sets of 2..5 materials of the shape, nearest-index and straight-through contracts of the real ClosestIndex; material count / kind / dictionary order classes enumerated"
LEVEL_NOTE = "real arithmetic; reverse-mode autodiff itself only in a bounded real-JAX stand-in (jax.vjp on enumerated concrete cases, labelled bounded)"
BOUNDED_RULE = "bounded stand-in: real ClosestIndex under real JAX, jax.vjp with a random cotangent on enumerated concrete material sets/shapes; the pulled-back cotangent must equal the cotangent"


# ---------------------------------------------------------------------------------------
# spec helpers (from the property text, not from the code)
# ---------------------------------------------------------------------------------------


def _order_statistics(vals):
    """ascending order statistics of a short list of symbolic reals (compare-exchange network)"""
    v = list(vals)
    n = len(v)
    for i in range(n):
        for j in range(n - 1 - i):
            lo, hi = sym_min(v[j], v[j + 1]), sym_max(v[j], v[j + 1])
            v[j], v[j + 1] = lo, hi
    return v


def _nearest_goal(val, x, allowed):
    """val is an index k in [0, len(allowed)-1] and allowed[k] is nearest to x"""
    some = False
    ok = True
    for k, ak in enumerate(allowed):
        hit = v_eq(val, k)
        some = A._vor(some, hit)
        best = True
        for j, aj in enumerate(allowed):
            if j != k:
                best = A._vand(best, abs(x - ak) <= abs(x - aj))
        ok = A._vand(ok, A._vor(A._vnot(hit), best))
    return A._vand(some, ok)


def _real_config():
    from fdtdx.config import SimulationConfig
    from fdtdx.core.grid import UniformGrid

    return SimulationConfig(time=1e-15, grid=UniformGrid(spacing=1e-8), backend="cpu")


def _label(cfg):
    s = f"{cfg['mode']}/{cfg['kind']}/M{cfg['M']}/rank{cfg['rank']}"
    if cfg.get("perm") is not None:
        s += "/order" + "".join(map(str, cfg["perm"]))
    elif cfg["mode"] == "inv":
        s += "/any_order_with_ties"
    if cfg.get("two_keys"):
        s += "/two_arrays"
    return s


# ---------------------------------------------------------------------------------------
# ClosestIndex contract
# ---------------------------------------------------------------------------------------


def _closest_index_body(cfg):
    def body(c, inp):
        import fdtdx.objects.device.parameters.discretization as D
        from fdtdx.materials import Material

        M, kind, mode, rank, perm = cfg["M"], cfg["kind"], cfg["mode"], cfg["rank"], cfg.get("perm")
        inp.note("config", dict(cfg))
        eps = [sym_real(f"eps{k}", lo_strict=0) for k in range(M)]
        for k in range(M):
            inp.scalar(f"eps{k}", eps[k])
        if perm is not None:
            # the dictionary lists the materials so that position perm[0] holds the smallest
            # permittivity, perm[1] the next one, ...  (pairwise distinct)
            for a, b in zip(perm, perm[1:]):
                ctx().assume((eps[a] < eps[b]).z)
        mats = {}
        for k in range(M):
            if kind == "iso":
                mats[f"m{k}"] = Material(permittivity=eps[k])
            else:
                ey = sym_real(f"eps{k}y", lo_strict=0)
                ez = sym_real(f"eps{k}z", lo_strict=0)
                inp.scalar(f"eps{k}y", ey)
                inp.scalar(f"eps{k}z", ez)
                mats[f"m{k}"] = Material(permittivity=(eps[k], ey, ez))
        names = ["Nx", "Ny", "Nz"][3 - rank :]
        keys = ["p", "q"] if cfg.get("two_keys") else ["p"]
        params, shapes = {}, {}
        for key in keys:
            shape = tuple(sym_int(f"{key}_{n}", lo=1) for n in names)
            for n, v in zip(names, shape):
                inp.scalar(f"{key}_{n}", v)
            shapes[key] = shape
            params[key] = inp.array(f"x_{key}", A.fresh_array(f"x_{key}", shape))
        tr = D.ClosestIndex(mapping_from_inverse_permittivities=(mode == "inv"))
        tr = tr.init_module(config=_real_config(), materials=mats, matrix_voxel_grid_shape=shapes[keys[0]], single_voxel_size=(1e-8, 1e-8, 1e-8), output_shape=dict(shapes))
        c.cover("pre")

        # spec: allowed values in index order
        if mode == "round":
            allowed = list(range(M))
        else:
            if perm is not None:
                sorted_eps = [eps[k] for k in perm]
            else:
                sorted_eps = _order_statistics(eps)
            allowed = [1 / e for e in sorted_eps]

        calls = []
        real_ste = D.straight_through_estimator

        def recording_ste(x, y):
            r = real_ste(x, y)
            calls.append((x, y, r))
            return r

        D.straight_through_estimator = recording_ste
        try:
            out = tr(params)
        finally:
            D.straight_through_estimator = real_ste

        c.prove("call/post:one_output_per_input", sorted(out.keys()) == sorted(keys))
        c.prove("ste_call:once_per_array", len(calls) == len(keys))
        for n, key in enumerate(keys):
            x, o = params[key], A.asarray(out[key])
            if n < len(calls):
                cx, cy, cr = calls[n]
                c.prove(f"ste_call[{key}]:x_is_the_unmodified_input", cx is x)
                prove_same_shape(f"ste_call[{key}]/pre:y_has_the_shape_of_x", A.asarray(cy), x)
                c.prove(f"ste_call[{key}]:result_is_returned", out[key] is cr)
            if not prove_same_shape(f"post[{key}]:shape_preserved", o, x):
                continue
            c.prove(f"post[{key}]:shape_preserved", True)  # all dimensions (syntactically or provably) equal

            def pred(val, idx, x=x):
                xv = x.at_index(tuple(A._raw_index(i) for i in idx))
                return _nearest_goal(val, xv, allowed)

            prove_pointwise(f"post[{key}]:index_of_nearest_allowed_value", o, pred)

    return body


def _on_exception(c, e):
    if isinstance(e, A.ShapeError):
        # numpy/JAX would raise a broadcasting error here: the call must not fail on any shape
        c.prove("call:raises_no_exception(broadcasting)", False)
        return
    raise e


# ---------------------------------------------------------------------------------------
# straight-through estimator contract
# ---------------------------------------------------------------------------------------


def _ste_contract(c, inp):
    import fdtdx.core.jax.ste as S

    shape = tuple(sym_int(n, lo=1) for n in ("Nx", "Ny", "Nz"))
    for n, v in zip(("Nx", "Ny", "Nz"), shape):
        inp.scalar(n, v)
    x = inp.array("x", A.fresh_array("x", shape))
    y = inp.array("y", A.fresh_array("y", shape))
    d = inp.array("d", A.fresh_array("d", shape))
    e = inp.array("e", A.fresh_array("e", shape))
    frozen, state = [], {"mode": "record", "k": 0}

    def stop_gradient(a):
        if state["mode"] == "record":
            frozen.append(a)
            return a
        k = state["k"]
        state["k"] += 1
        if k >= len(frozen):
            return a
        return frozen[k]

    saved = S.jax
    S.jax = types.SimpleNamespace(lax=types.SimpleNamespace(stop_gradient=stop_gradient))
    try:
        c.cover("pre")
        out0 = S.straight_through_estimator(x, y)
        state["mode"] = "replay"
        out1 = S.straight_through_estimator(x + d, y + e)
    finally:
        S.jax = saved
    prove_arrays_equal("ste/post:forward_value_is_y", out0, y)
    c.prove("ste/post:same_stop_gradient_calls", state["k"] == len(frozen))
    prove_arrays_equal("ste/post:slope_1_in_x_and_0_in_y(stop_gradient_outputs_frozen)", A.asarray(out1) - A.asarray(out0), d)


# ---------------------------------------------------------------------------------------
# bounded stand-in: real reverse-mode autodiff
# ---------------------------------------------------------------------------------------

_BOUNDED_CASES = [
    # (mode, permittivities, shape)
    ("round", [1.0, 2.25], (3, 4, 2)),
    ("round", [1.0, 2.25, 4.0], (1, 5, 1)),
    ("round", [(1.0, 2.0, 3.0), (2.0, 2.5, 3.5), (4.0, 4.5, 5.0), (6.0, 6.0, 7.0), (9.0, 9.5, 9.9)], (2, 1, 3)),
    ("inv", [1.0, 11.7], (4, 4, 3)),
    ("inv", [4.0, 1.0, 2.25], (3, 1, 1)),
    ("inv", [2.0, 3.0, 1.5, 12.0, 6.0], (2, 3, 4)),
]


def _real_transform(mode, perms):
    from fdtdx import ClosestIndex, Material

    mats = {f"m{k}": Material(permittivity=p) for k, p in enumerate(perms)}
    tr = ClosestIndex(mapping_from_inverse_permittivities=(mode == "inv"))
    return tr.aset("_materials", mats, create_new_ok=True)


def _bounded_grad(c, inp):
    import jax
    import jax.numpy as jnp
    import numpy as np

    skipped = []
    for n, (mode, perms, shape) in enumerate(_BOUNDED_CASES):
        rng = np.random.default_rng(n)
        lo, hi = (-0.7, len(perms) - 0.3) if mode == "round" else (0.0, 1.2)
        x = jnp.asarray(rng.uniform(lo, hi, size=shape))
        w = jnp.asarray(rng.normal(size=shape))
        tr = _real_transform(mode, perms)
        case = {"mode": mode, "permittivities": [list(p) if isinstance(p, tuple) else p for p in perms], "shape": list(shape)}
        try:
            out, vjp = jax.vjp(lambda a: tr({"p": a})["p"], x)
        except Exception as e:  # noqa: BLE001
            skipped.append({**case, "forward_failed": f"{type(e).__name__}: {str(e)[:120]}"})
            continue
        if out.shape != x.shape:
            skipped.append({**case, "forward_shape": list(out.shape)})
            continue
        (g,) = vjp(w)
        ok = bool(np.allclose(np.asarray(g), np.asarray(w), rtol=0, atol=1e-12))
        c.bounded("grad:vjp_returns_the_cotangent_unchanged", ok, case=case, witness={"notes": {"case": case, "max_abs_dev": float(np.max(np.abs(np.asarray(g) - np.asarray(w))))}})
    # forward failures are the business of the deductive obligations (call:raises_no_exception, shape_preserved)
    inp.note("not_evaluated", skipped)


# ---------------------------------------------------------------------------------------
# task table
# ---------------------------------------------------------------------------------------


def _configs(tier, seed):
    out = []
    for kind in ("iso", "diag"):
        for M in (2, 3, 4, 5):
            out.append({"mode": "round", "kind": kind, "M": M, "rank": 3})
    out.append({"mode": "round", "kind": "iso", "M": 2, "rank": 1})
    out.append({"mode": "round", "kind": "diag", "M": 3, "rank": 2, "two_keys": True})
    # inverse-permittivity mapping, isotropic materials
    out.append({"mode": "inv", "kind": "iso", "M": 2, "rank": 3})
    out.append({"mode": "inv", "kind": "iso", "M": 3, "rank": 3})
    out.append({"mode": "inv", "kind": "iso", "M": 2, "rank": 1})
    out.append({"mode": "inv", "kind": "iso", "M": 2, "rank": 2, "two_keys": True})
    rnd = random.Random(seed)
    for M in (4, 5):
        perms = list(itertools.permutations(range(M)))
        if tier == "thorough":
            chosen = perms
        else:
            chosen = [perms[0], perms[-1]] + rnd.sample(perms[1:-1], 3)
        for p in chosen:
            out.append({"mode": "inv", "kind": "iso", "M": M, "rank": 3, "perm": list(p)})
    if tier == "thorough":
        out.append({"mode": "inv", "kind": "iso", "M": 4, "rank": 3})
        out.append({"mode": "inv", "kind": "iso", "M": 3, "rank": 2})
        out.append({"mode": "inv", "kind": "iso", "M": 3, "rank": 1})
    return out


def tasks(tier, seed):
    out = {}
    for cfg in _configs(tier, seed):
        out[_label(cfg)] = Task(_closest_index_body(cfg), on_exception=_on_exception, max_paths=2048)
    out["ste/contract"] = Task(_ste_contract)
    out["grad/bounded_real_jax"] = Task(_bounded_grad, modules=[])
    return out


# ---------------------------------------------------------------------------------------
# replay on the real code under real JAX
# ---------------------------------------------------------------------------------------


def _oracle_ok(x, out, allowed):
    """every out entry is an index whose allowed value is (one of) the nearest to x"""
    import numpy as np

    allowed = np.asarray(allowed, dtype=np.float64)
    dist = np.abs(x[..., None] - allowed)
    best = dist.min(axis=-1)
    k = np.rint(out).astype(int)
    bad = (np.abs(out - k) > 1e-9) | (k < 0) | (k >= len(allowed))
    kk = np.clip(k, 0, len(allowed) - 1)
    mine = np.take_along_axis(dist, kk[..., None], axis=-1)[..., 0]
    bad |= mine > best + 1e-12
    return bad


def replay(key, obligation, witness):
    import jax
    import jax.numpy as jnp
    import numpy as np

    from vc.harness import witness_arrays_to_numpy

    w = witness or {}
    if key == "grad/bounded_real_jax":
        case = (w.get("notes") or {}).get("case")
        if not case:
            return False, "no case recorded"
        perms = [tuple(p) if isinstance(p, list) else p for p in case["permittivities"]]
        tr = _real_transform(case["mode"], perms)
        rng = np.random.default_rng(0)
        x = jnp.asarray(rng.uniform(0, 1.2, size=case["shape"]))
        cot = jnp.asarray(rng.normal(size=case["shape"]))
        out, vjp = jax.vjp(lambda a: tr({"p": a})["p"], x)
        (g,) = vjp(cot)
        dev = float(np.max(np.abs(np.asarray(g) - np.asarray(cot))))
        return dev > 1e-12, f"real ClosestIndex {case}: max |vjp(w) - w| = {dev}"
    if key.startswith("ste/"):
        from fdtdx.core.jax.ste import straight_through_estimator

        rng = np.random.default_rng(0)
        x = jnp.asarray(rng.normal(size=(2, 3, 2)))
        cot = jnp.asarray(rng.normal(size=(2, 3, 2)))
        f = lambda a: straight_through_estimator(a, jnp.round(3.0 * a) + a * a)  # noqa: E731
        out, vjp = jax.vjp(f, x)
        (g,) = vjp(cot)
        dv = float(np.max(np.abs(np.asarray(out) - np.asarray(jnp.round(3.0 * x) + x * x))))
        dg = float(np.max(np.abs(np.asarray(g) - np.asarray(cot))))
        return (dv > 1e-12 or dg > 1e-12), f"real straight_through_estimator(x, y(x)) with y = round(3x)+x^2: max|out-y| = {dv}, max|vjp(w)-w| = {dg}"
    cfg = (w.get("notes") or {}).get("config")
    if not cfg:
        return False, "witness carries no configuration"
    sc = w.get("scalars", {})
    M, mode = cfg["M"], cfg["mode"]
    try:
        eps = [float(sc[f"eps{k}"]) for k in range(M)]
    except Exception as e:  # noqa: BLE001
        return False, f"witness incomplete: {e}"
    if cfg["kind"] == "iso":
        perms = eps
    else:
        perms = [(eps[k], float(sc.get(f"eps{k}y", eps[k] + 0.5)), float(sc.get(f"eps{k}z", eps[k] + 1.0))) for k in range(M)]
    tr = _real_transform(mode, perms)
    names = ["Nx", "Ny", "Nz"][3 - cfg["rank"] :]
    keys = ["p", "q"] if cfg.get("two_keys") else ["p"]
    wa = witness_arrays_to_numpy(w)
    rng = np.random.default_rng(0)
    params = {}
    for k in keys:
        shape = []
        for n in names:
            v = sc.get(f"{k}_{n}", 2)
            shape.append(int(min(max(int(v), 1), 7)) if isinstance(v, (int, float)) else 2)
        shape = tuple(shape)
        a = wa.get(f"x_{k}")
        if a is None or a.shape != shape:
            a = rng.uniform(0.0, 1.2, size=shape) if mode == "inv" else rng.uniform(-0.7, M - 0.3, size=shape)
        params[k] = np.asarray(a, dtype=np.float64)
    allowed = list(range(M)) if mode == "round" else [1.0 / e for e in sorted(eps)]
    desc = f"real ClosestIndex(mapping_from_inverse_permittivities={mode == 'inv'}), {cfg['kind']} permittivities {perms}, input shapes { {k: v.shape for k, v in params.items()} }"
    try:
        out = tr({k: jnp.asarray(v) for k, v in params.items()})
    except Exception as e:  # noqa: BLE001
        return True, f"{desc}: raised {type(e).__name__}: {str(e)[:160]}"
    for k in keys:
        o = np.asarray(out[k])
        if o.shape != params[k].shape:
            return True, f"{desc}: output shape {o.shape} for input shape {params[k].shape}"
        bad = _oracle_ok(params[k], o, allowed)
        if bad.any():
            i = tuple(int(t) for t in np.argwhere(bad)[0])
            return True, f"{desc}: at {i} x = {params[k][i]!r} -> index {o[i]!r}, allowed values by index {allowed}, nearest is index {int(np.argmin(np.abs(params[k][i] - np.asarray(allowed))))} ({int(bad.sum())} of {bad.size} voxels wrong)"
    return False, f"{desc}: output matches the nearest-index oracle on this input"
