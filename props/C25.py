"""C25  Brush-constrained designs are unions of brush placements.   BOUNDED ONLY (nothing is proved).

The while loop of BrushConstraint2D._generator (touch / pixel bookkeeping, data dependent exit) has no
loop contract here: a termination measure and an invariant relating touches to pixels were not found
within budget.  This module therefore runs the REAL BrushConstraint2D under real JAX on seeded random
latent designs (continuous and two-level) and judges the output with a numpy oracle:

  * the call returns (a watchdog child process turns a hang into a reported failure),
  * the output has the input's shape and holds only 0 / 1,
  * the solid region and the void region are each a union of brush footprints whose in-domain part lies
    inside that region (morphological opening with placements on the design grid, clipped at the boundary),
  * on a small subset the loop is driven step by step from Python with the real cond/body functions and
    the number of placed touches must grow strictly (the termination measure one would use in a proof).
"""

from __future__ import annotations

import itertools
import json
import os
import shutil
import signal
import subprocess
import sys
import tempfile

from vc.harness import Task

ID = "C25"
LEVEL = "exploration"
TECHNIQUE = "bounded search (not a proof): real BrushConstraint2D under real JAX on seeded random designs, numpy morphological-opening oracle, watchdog for termination; plus a bounded one-step check of the loop invariant (disjoint footprints) by applying the real body_fn to sampled invariant states"
DZ_MOD = "fdtdx.objects.device.parameters.discretization"
MODULES = []
FILES = ["src/fdtdx/objects/device/parameters/discretization.py", "src/fdtdx/objects/device/parameters/binary_transform.py"]
FUNCTIONS = ["fdtdx.objects.device.parameters.discretization.BrushConstraint2D.__call__ / _generator (bounded only)", "fdtdx.objects.device.parameters.discretization.circular_brush (bounded only)", "fdtdx.objects.device.parameters.binary_transform.dilate_jax (bounded only)"]
INLINED = []
STUBS = ["equinox.internal.while_loop is replaced by a Python driver calling the real cond_fun/body_fun ONLY in the termination-measure subset and in the step-invariant tasks (which capture the real cond_fun/body_fun and apply body_fn once to sampled states); every other run uses the real loop"]
ASSUMPTIONS = [
    "NOTHING is proved deductively for this property: no loop invariant / termination measure for BrushConstraint2D._generator was discharged",
    "bounded domain: circular brushes of diameter 2, 3, 4, 5 (thorough: also 6, 7), 2-D designs from 5x5 to 8x8 (thorough 12x12, 10x16) on each of the three axis orientations, both background indices, seeded normal latent values and two-level (+-1) designs",
    "a brush placement is a footprint centred on a cell of the design grid; it may stick out of the design and only its in-domain part is constrained (footprints centred outside the design are not counted)",
    "the design is at least as large as the brush array along both in-plane axes (jax.scipy.signal.convolve2d raises or swaps its operands otherwise)",
    "termination is observed (watchdog timeout, strictly growing touch count on a subset), not proved",
]
MIN_OBLIGATIONS = {"quick": 40, "thorough": 40}
LEVEL_TEXT = "Bounded exploration only: real code on seeded random designs against a numpy oracle, and the real loop body applied once to sampled states satisfying the loop invariant; no deductive claim"
LEVEL_NOTE = "see ASSUMPTIONS for the exact bounded domain"
BOUNDED_RULE = "real BrushConstraint2D under real JAX (jit per shape, real equinox while loop) on seeded random designs; oracle: both phases are unions of brush footprints whose in-domain part lies in the phase; watchdog child process for termination; step-invariant tasks: real body_fn once from random states with disjoint void/solid footprints"
WATCHDOG_S = int(os.environ.get("VERIF_C25_WATCHDOG_S", "600"))


# ---------------------------------------------------------------------------------------
# oracle
# ---------------------------------------------------------------------------------------


def union_of_footprints(region, brush):
    """True iff every cell of `region` (2-D bool) is covered by a brush footprint, placed with the brush's
    array centre on a cell of the design grid (a "brush placement"), whose in-domain part lies inside
    `region` (the footprint may stick out of the design; only its in-domain part is constrained)"""
    import numpy as np

    region = np.asarray(region, dtype=bool)
    brush = np.asarray(brush, dtype=bool)
    h, w = region.shape
    bh, bw = brush.shape
    ch, cw = (bh - 1) // 2, (bw - 1) // 2
    offs = [(a - ch, b - cw) for a in range(bh) for b in range(bw) if brush[a, b]]
    covered = np.zeros_like(region)
    for ci in range(h):
        for cj in range(w):
            cells = [(ci + a, cj + b) for a, b in offs if 0 <= ci + a < h and 0 <= cj + b < w]
            if cells and all(region[c] for c in cells):
                for c in cells:
                    covered[c] = True
    return bool((covered | ~region).all()), covered


def judge(out2d, brush):
    import numpy as np

    o = np.asarray(out2d)
    if not np.all((o == 0) | (o == 1)):
        return False, "output is not binary"
    s = o == 1
    ok_s, cov_s = union_of_footprints(s, brush)
    ok_v, cov_v = union_of_footprints(~s, brush)
    if ok_s and ok_v:
        return True, ""
    bad = []
    if not ok_s:
        bad.append(f"{int((s & ~cov_s).sum())} index-1 cells lie in no brush footprint contained in the index-1 region")
    if not ok_v:
        bad.append(f"{int((~s & ~cov_v).sum())} index-0 cells lie in no brush footprint contained in the index-0 region")
    return False, "; ".join(bad)


# ---------------------------------------------------------------------------------------
# real code drivers
# ---------------------------------------------------------------------------------------


def _module(diam, axis, bg, shape3):
    import importlib

    import fdtdx

    dz = importlib.import_module(DZ_MOD)
    mats = {"lo": fdtdx.Material(permittivity=1.0), "hi": fdtdx.Material(permittivity=2.25)}
    brush = dz.circular_brush(diam)
    mod = dz.BrushConstraint2D(brush=brush, axis=axis, background_material=None if bg == 0 else "hi")
    mod = mod.init_module(config=None, materials=mats, matrix_voxel_grid_shape=shape3, single_voxel_size=(1.0, 1.0, 1.0), output_shape={"p": shape3})
    return mod, brush


def _shape3(shape2, axis):
    s = list(shape2)
    s.insert(axis, 1)
    return tuple(s)


def worker_main(path_in, path_out, path_progress):
    """child process: real module, real equinox while loop, jit per (shape, axis, bg)"""
    import jax
    import jax.numpy as jnp
    import numpy as np

    with open(path_in) as fh:
        job = json.load(fh)
    results = []
    for gi, g in enumerate(job["groups"]):
        diam, axis, bg, shape2 = g["diam"], g["axis"], g["bg"], tuple(g["shape"])
        mod, brush = _module(diam, axis, bg, _shape3(shape2, axis))
        f = jax.jit(lambda p, mod=mod: mod({"p": p})["p"])
        outs = []
        for di, d in enumerate(g["designs"]):
            with open(path_progress, "w") as fh:
                json.dump({"group": gi, "design": di}, fh)
            p = jnp.asarray(np.array(d, dtype=np.float64).reshape(_shape3(shape2, axis)))
            outs.append(np.asarray(f(p)).tolist())
        results.append(outs)
    with open(path_out, "w") as fh:
        json.dump(results, fh)


def run_guarded(groups, timeout_s):
    """-> (results | None, progress) ; None = the child did not finish within timeout_s"""
    tmp = tempfile.mkdtemp(prefix="c25_")
    pin, pout, pprog = (os.path.join(tmp, n) for n in ("in.json", "out.json", "progress.json"))
    with open(pin, "w") as fh:
        json.dump({"groups": groups}, fh)
    code = f"import sys; sys.path.insert(0, {os.path.dirname(os.path.dirname(os.path.abspath(__file__)))!r}); import vc; vc.assert_repo_import(); import props.C25 as P; P.worker_main({pin!r}, {pout!r}, {pprog!r})"
    try:
        # the watchdog budget is CPU time of the child (RLIMIT_CPU -> SIGXCPU), so a busy machine cannot turn a
        # slow run into a false "does not terminate"; wall clock is only the outer cap
        from vc.core import WALL_CAP, _child_cpu_limit

        r = subprocess.run([sys.executable, "-c", code], timeout=timeout_s * WALL_CAP, capture_output=True, text=True, preexec_fn=lambda: _child_cpu_limit(timeout_s))
        if r.returncode in (-signal.SIGXCPU, -signal.SIGKILL):
            raise subprocess.TimeoutExpired(r.args, timeout_s)
        if r.returncode != 0 or not os.path.exists(pout):
            return "crash", (r.stderr or "")[-1500:]
        with open(pout) as fh:
            return json.load(fh), None
    except subprocess.TimeoutExpired:
        prog = None
        if os.path.exists(pprog):
            with open(pprog) as fh:
                prog = json.load(fh)
        return None, prog
    finally:
        shutil.rmtree(tmp, ignore_errors=True)


class _PyLoop:
    """drives the real cond_fun / body_fun from Python; records the touch counts"""

    def __init__(self, cap):
        self.cap = cap
        self.counts = []
        self.stuck = False
        self.iters = 0

    def while_loop(self, cond_fun, body_fun, init_val, **kw):
        import numpy as np

        val = init_val
        self.counts.append(int(sum(int(np.asarray(a).sum()) for a in val)))
        while bool(cond_fun(val)):
            val = body_fun(val)
            self.iters += 1
            self.counts.append(int(sum(int(np.asarray(a).sum()) for a in val)))
            if self.counts[-1] <= self.counts[-2] or self.iters > self.cap:
                self.stuck = True
                break
        return val


def run_stepwise(diam, axis, bg, design2d):
    """real cond/body driven from Python -> (out2d | None, loop record)"""
    import importlib

    import jax.numpy as jnp
    import numpy as np

    dz = importlib.import_module(DZ_MOD)
    d = np.asarray(design2d, dtype=np.float64)
    mod, brush = _module(diam, axis, bg, _shape3(d.shape, axis))
    loop = _PyLoop(cap=2 * d.size + 5)
    saved = dz.eqxi
    dz.eqxi = loop
    try:
        out = np.asarray(mod({"p": jnp.asarray(d.reshape(_shape3(d.shape, axis)))})["p"])
    finally:
        dz.eqxi = saved
    return (None if loop.stuck else np.squeeze(out, axis=axis)), loop, np.asarray(brush)


# ---------------------------------------------------------------------------------------
# tasks
# ---------------------------------------------------------------------------------------


def _designs(rng, shape, n):
    import numpy as np

    out = []
    for t in range(n):
        kind = t % 4
        if kind == 0:
            d = rng.normal(size=shape)
        elif kind == 1:
            d = np.where(rng.random(shape) < rng.choice([0.3, 0.5, 0.7]), 1.0, -1.0)
        elif kind == 2:  # smooth blobs
            g = rng.normal(size=shape)
            d = g + np.roll(g, 1, 0) + np.roll(g, 1, 1) + np.roll(g, -1, 0) + np.roll(g, -1, 1)
        else:  # thin features the brush cannot reproduce
            d = -np.ones(shape)
            d[rng.integers(0, shape[0])] = 1.0
            d[:, rng.integers(0, shape[1])] = 1.0
            d = d + 0.01 * rng.normal(size=shape)
        out.append(d)
    return out


def _bounded_task(diam, shapes, n_per, seed, stepwise_n):
    def body(c, inp):
        import importlib

        import numpy as np

        rng = np.random.default_rng([seed, int(diam * 10), 25])
        bsize = int(np.ceil(diam)) + (1 - int(np.ceil(diam)) % 2)
        shapes_ = [s for s in shapes if min(s) >= bsize]  # jax convolve2d needs the design >= the brush array
        groups = []
        k = 0
        for shape in shapes_:
            for axis in (0, 1, 2):
                for bg in (0, 1):
                    k += 1
                    if axis != 2 and bg == 1 and k % 2:
                        continue
                    ds = _designs(rng, shape, n_per if (axis == 2 and bg == 0) else max(2, n_per // 4))
                    groups.append({"diam": diam, "axis": axis, "bg": bg, "shape": list(shape), "designs": [d.ravel().tolist() for d in ds]})
        res, info = run_guarded(groups, WATCHDOG_S)
        dz = importlib.import_module(DZ_MOD)
        brush = np.asarray(dz.circular_brush(diam))
        if res == "crash":
            c.bounded("BrushConstraint2D/runs_without_exception", False, case={"diameter": diam}, witness={"stderr": info})
            return
        if res is None:
            g = groups[info["group"]] if info else groups[0]
            di = info["design"] if info else 0
            c.bounded("BrushConstraint2D/terminates", False, case={"diameter": diam, "watchdog_s": WATCHDOG_S}, witness={"diameter": diam, "axis": g["axis"], "bg": g["bg"], "shape": g["shape"], "design": g["designs"][di]})
            return
        for g, outs in zip(groups, res):
            shape = tuple(g["shape"])
            label = {"diameter": diam, "axis": g["axis"], "background_idx": g["bg"], "shape": list(shape), "designs": len(outs)}
            bad = None
            for d, o in zip(g["designs"], outs):
                o = np.asarray(o)
                if o.shape != _shape3(shape, g["axis"]):
                    bad = (d, f"output shape {o.shape}")
                    break
                ok, why = judge(np.squeeze(o, axis=g["axis"]), brush)
                if not ok:
                    bad = (d, why)
                    break
            c.bounded("BrushConstraint2D/terminates", True, case=label)
            c.bounded("BrushConstraint2D/binary_output_both_phases_unions_of_brush_footprints", bad is None, case=label, witness=None if bad is None else {"diameter": diam, "axis": g["axis"], "bg": g["bg"], "shape": list(shape), "design": bad[0], "why": bad[1]})
        # termination measure on a small subset: real cond/body driven from Python
        for t in range(stepwise_n):
            shape = shapes_[0]
            d = _designs(rng, shape, 4)[t % 4]
            out, loop, _ = run_stepwise(diam, 2, t % 2, d)
            ok = not loop.stuck
            why = ""
            if ok:
                ok, why = judge(out, brush)
            c.bounded("BrushConstraint2D/stepwise:touch_count_strictly_increases_until_exit", ok, case={"diameter": diam, "shape": list(shape), "iterations": loop.iters, "k": t}, witness=None if ok else {"diameter": diam, "axis": 2, "bg": t % 2, "shape": list(shape), "design": d.ravel().tolist(), "why": why or f"touch counts {loop.counts[-6:]}"})

    return body


class _Capture:
    """hands back the loop's initial value and keeps the real cond_fun / body_fun (closed over the design)"""

    def while_loop(self, cond_fun, body_fun, init_val, **kw):
        self.cond, self.body = cond_fun, body_fun
        return init_val


def _step_invariant_task(diam, shapes, n_designs, n_states, seed):
    """Bounded ONE-STEP check of the loop invariant on sampled states (not only on states a run from the empty
    state happens to visit):   I(v, s):  the footprints of the void touches and of the solid touches are disjoint.
    From a random state satisfying I (random touch sets grown greedily under I) with the exit condition false,
    one application of the REAL body_fn must (a) keep I, (b) keep every earlier touch, (c) add at least one touch.
    I at exit gives 'each phase is a union of brush footprints' (every pixel is covered, by one phase only)."""

    def body(c, inp):
        import importlib

        import jax.numpy as jnp
        import numpy as np

        dz = importlib.import_module(DZ_MOD)
        rng = np.random.default_rng([seed, int(diam * 10), 2525])
        bsize = int(np.ceil(diam)) + (1 - int(np.ceil(diam)) % 2)
        for shape in [s_ for s_ in shapes if min(s_) >= bsize]:
            bad, n_checked, n_case = None, 0, 0
            for d in _designs(rng, shape, n_designs):
                mod, brush = _module(diam, 2, 0, _shape3(shape, 2))
                cap = _Capture()
                saved = dz.eqxi
                dz.eqxi = cap
                try:
                    mod({"p": jnp.asarray(np.asarray(d, dtype=np.float64).reshape(_shape3(shape, 2)))})
                finally:
                    dz.eqxi = saved

                def dil(x):
                    return np.asarray(dz.dilate_jax(jnp.asarray(x), brush)).astype(bool)

                for _ in range(n_states):
                    v, s_ = np.zeros(shape, bool), np.zeros(shape, bool)
                    for _k in range(int(rng.integers(1, 2 + shape[0] * shape[1] // 6))):
                        pos = (int(rng.integers(0, shape[0])), int(rng.integers(0, shape[1])))
                        tgt, oth = (v, s_) if rng.random() < 0.5 else (s_, v)
                        t2 = tgt.copy()
                        t2[pos] = True
                        if not (dil(t2) & dil(oth)).any():
                            tgt[pos] = True
                    state = (jnp.asarray(v), jnp.asarray(s_))
                    if not bool(cap.cond(state)):
                        continue
                    nv, ns = (np.asarray(a).astype(bool) for a in cap.body(state))
                    n_checked += 1
                    why = None
                    if (dil(nv) & dil(ns)).any():
                        why = "void and solid footprints overlap after the step"
                    elif (v & ~nv).any() or (s_ & ~ns).any():
                        why = "an earlier touch was dropped"
                    elif int(nv.sum() + ns.sum()) <= int(v.sum() + s_.sum()):
                        why = "no touch was added although the exit condition is false"
                    if why and bad is None:
                        bad = {"diameter": diam, "shape": list(shape), "design": np.asarray(d).ravel().tolist(), "touch_void": v.astype(int).ravel().tolist(), "touch_solid": s_.astype(int).ravel().tolist(), "why": why}
            c.bounded("BrushConstraint2D/step_invariant:footprints_stay_disjoint_and_touches_grow", bad is None, case={"diameter": diam, "shape": list(shape), "states_checked": n_checked}, witness=bad)

    return body


def _oracle_selftest(c, inp):
    """the oracle accepts genuine brush unions and rejects sub-brush features"""
    import importlib

    import numpy as np

    dz = importlib.import_module(DZ_MOD)
    for diam in (2, 3, 4, 5):
        brush = np.asarray(dz.circular_brush(diam))
        size = int(np.ceil(diam)) + (1 - int(np.ceil(diam)) % 2)
        ax = np.arange(size) - (size - 1) / 2
        disc = (ax[:, None] ** 2 + ax[None, :] ** 2) <= (diam / 2) ** 2 + 1e-12
        c.bounded("circular_brush/is_the_disc_of_the_given_diameter", bool(brush.shape == disc.shape and (brush == disc).all()), case={"diameter": diam})
        c.bounded("oracle/brush_is_odd_sized_and_symmetric", bool(brush.shape[0] == brush.shape[1] and brush.shape[0] % 2 == 1 and (brush == brush[::-1, ::-1]).all() and (brush == brush.T).all()), case={"diameter": diam})
        z = np.zeros((9, 9), bool)
        c.bounded("oracle/accepts_empty_and_full", union_of_footprints(z, brush)[0] and union_of_footprints(~z, brush)[0], case={"diameter": diam})
        one = z.copy()
        one[4, 4] = True
        c.bounded("oracle/rejects_single_pixel", (not union_of_footprints(one, brush)[0]) or int(brush.sum()) == 1, case={"diameter": diam})
        bh = brush.shape[0]
        st = z.copy()
        st[2 : 2 + bh, 3 : 3 + bh] |= brush
        c.bounded("oracle/accepts_one_footprint", union_of_footprints(st, brush)[0], case={"diameter": diam})


def tasks(tier, seed):
    thorough = tier == "thorough"
    out = {"oracle_selftest": Task(_oracle_selftest, modules=[], bounded=True)}
    diams = [2, 3, 4, 5] + ([6, 7] if thorough else [])
    shapes = [(5, 5), (6, 8), (8, 8)] + ([(12, 12), (10, 16)] if thorough else [])
    for d in diams:
        out[f"brush_d{d}"] = Task(_bounded_task(d, shapes, 40 if thorough else 12, seed, 4 if thorough else 2), modules=[], bounded=True)
        out[f"step_invariant_d{d}"] = Task(_step_invariant_task(d, [(8, 8), (7, 10)] + ([(12, 12)] if thorough else []), 12 if thorough else 4, 60 if thorough else 25, seed), modules=[], bounded=True)
    return out


def replay(key, obligation, witness):
    """real cond/body of the real module driven step by step on the witness design"""
    import numpy as np

    w = witness or {}
    if "design" not in w:
        return False, "no witness design"
    if "touch_void" in w:  # one-step invariant witness: re-run the real body on the recorded state
        import importlib

        import jax.numpy as jnp

        dz = importlib.import_module(DZ_MOD)
        shape = tuple(w["shape"])
        d = np.array(w["design"], dtype=np.float64).reshape(shape)
        mod, brush = _module(w["diameter"], 2, 0, _shape3(shape, 2))
        cap = _Capture()
        saved = dz.eqxi
        dz.eqxi = cap
        try:
            mod({"p": jnp.asarray(d.reshape(_shape3(shape, 2)))})
        finally:
            dz.eqxi = saved
        v = np.array(w["touch_void"], dtype=bool).reshape(shape)
        s_ = np.array(w["touch_solid"], dtype=bool).reshape(shape)
        nv, ns = (np.asarray(a).astype(bool) for a in cap.body((jnp.asarray(v), jnp.asarray(s_))))
        dil = lambda x: np.asarray(dz.dilate_jax(jnp.asarray(x), brush)).astype(bool)  # noqa: E731
        ov = int((dil(nv) & dil(ns)).sum())
        return ov > 0 or bool((v & ~nv).any() or (s_ & ~ns).any()), f"diameter {w['diameter']} design {shape}: real body_fn from a state with disjoint footprints ({int(v.sum())} void / {int(s_.sum())} solid touches): {ov} pixels covered by both phases after the step"
    shape = tuple(w["shape"])
    d = np.array(w["design"], dtype=np.float64).reshape(shape)
    out, loop, brush = run_stepwise(w["diameter"], w["axis"], w["bg"], d)
    if loop.stuck:
        return True, f"diameter {w['diameter']} design {shape}: real loop body stops placing touches after {loop.iters} iterations (touch counts {loop.counts[-5:]}) while the exit condition is still false -> the real while loop does not terminate"
    ok, why = judge(out, brush)
    return (not ok), f"diameter {w['diameter']} design {shape}, axis {w['axis']}, background index {w['bg']}: real BrushConstraint2D output after {loop.iters} iterations: {why or 'both phases are unions of brush footprints'}"
