"""C29  Sources and detectors see the device materials after parameters are applied.

Contracts
  SimulationObject.check_overlap(d, o)
      ensures  (forall axis: [d0,d1) and [o0,o1) intersect)  ==>  result is True
      (soundness direction needed by the property: every object that intersects a device is re-applied)
  apply_params(arrays, objects, params)
      ensures  for every non-device object o whose box intersects a device box:
               o.apply(...) was called exactly once, with inv_permittivities == the returned
               (post-device) arrays.inv_permittivities, and the returned container holds its result.
The second contract is proved on the REAL apply_params with symbolic device/object boxes, a real
Device (continuous, parameter chain abstracted as an arbitrary rho array) and a recording object.
"""

from __future__ import annotations

from props import common as K
from vc import array as A
from vc import scene
from vc.core import SymBool, ctx
from vc.harness import Task
from vc.obl import prove_arrays_equal, sym_int

ID = "C29"
LEVEL = "proof"
TECHNIQUE = "interval-intersection postcondition on the real check_overlap and call-site obligation on the real apply_params, symbolic boxes, z3"
MODULES = ["fdtdx.objects.object", "fdtdx.fdtd.initialization", "fdtdx.objects.device.device", "fdtdx.core.misc", "fdtdx.materials", "fdtdx.core.jax.ste", "fdtdx.core.jax.pytrees"]
FILES = ["src/fdtdx/objects/object.py", "src/fdtdx/fdtd/initialization.py"]
FUNCTIONS = ["fdtdx.objects.object.SimulationObject.check_overlap", "fdtdx.fdtd.initialization.apply_params (re-application loop)"]
INLINED = ["fdtdx.fdtd.initialization._invert_property", "fdtdx.materials.compute_allowed_permittivities"]
STUBS = ["Device.__call__ (parameter transform chain + voxel expansion): returns an arbitrary array rho of the device's grid shape"]
ASSUMPTIONS = ["boxes are well-formed: 0 <= lo < hi <= N on every axis", "object.apply is a function of the arrays it is handed (its result is what 'being set up against those materials' means)"]
MIN_OBLIGATIONS = {"quick": 10, "thorough": 10}
LEVEL_TEXT = "Deductive proof over all device/object boxes (all overlap relations incl. containment, touching, disjoint) of the overlap predicate's soundness and of the re-application loop of the real apply_params"
LEVEL_NOTE = "integers mathematical; Device parameter chain abstracted; apply() of sources/detectors treated as a function of its array arguments"


def _boxes(inp, n_names=("d", "o")):
    shape = scene.sym_shape()
    for n, v in zip("xyz", shape):
        inp.scalar(f"N{n}", v)
    out = []
    for nm in n_names:
        box = []
        for ax in range(3):
            lo = sym_int(f"{nm}{ax}lo", lo=0)
            hi = sym_int(f"{nm}{ax}hi")
            ctx().assume((lo < hi).z)
            ctx().assume((hi <= shape[ax]).z)
            inp.scalar(f"{nm}{ax}lo", lo)
            inp.scalar(f"{nm}{ax}hi", hi)
            box.append((lo, hi))
        out.append(tuple(box))
    return shape, out


def _intersects(b1, b2):
    res = True
    for (a0, a1), (c0, c1) in zip(b1, b2):
        res = A._vand(res, A._vand(a0 < c1, c0 < a1))
    return res


def _overlap_contract(c, inp):
    from fdtdx.objects.static_material.static import SimulationVolume

    shape, (db, ob) = _boxes(inp)
    cfg = scene.make_config()
    d = scene._place(SimulationVolume(name="dev"), db, cfg)
    o = scene._place(SimulationVolume(name="obj"), ob, cfg)
    c.cover("pre")
    res = d.check_overlap(o)
    if not isinstance(res, bool):
        res = bool(res)
    # on this path (fixed decisions) the function returned `res`
    c.prove("check_overlap/post:intersecting=>True", A._vor(A._vnot(_intersects(db, ob)), res))


def _apply_params_contract(c, inp):
    import jax

    import fdtdx
    import fdtdx.fdtd.initialization as I
    from fdtdx.fdtd.container import ArrayContainer, FieldState, ObjectContainer
    from fdtdx.objects.device.device import Device
    from fdtdx.objects.object import SimulationObject
    from fdtdx.objects.static_material.static import SimulationVolume

    shape, (db, ob) = _boxes(inp)
    cfg = scene.make_config()
    calls = []

    class Recording(SimulationVolume):
        """an object whose apply() records what it was handed (stands for any source/detector)"""

        def apply(self, key, inv_permittivities, inv_permeabilities, **kw):
            calls.append((inv_permittivities, inv_permeabilities))
            return self.aset("color", None)

    mats = {"a": fdtdx.Material(permittivity=2.0), "b": fdtdx.Material(permittivity=5.0)}
    dev = Device(name="dev", materials=mats, param_transforms=[], partial_voxel_grid_shape=(1, 1, 1))
    dev = scene._place(dev, db, cfg)
    obj = scene._place(Recording(name="obj"), ob, cfg)
    vol = scene.real_volume(shape, cfg)
    objs = ObjectContainer(object_list=[vol, dev, obj], volume_idx=0)
    inv_eps = A.fresh_array("inv_eps", (3, *shape), fact=lambda v, idx: v > 0)
    arrays = ArrayContainer(fields=FieldState(E=A.zeros((3, *shape)), H=A.zeros((3, *shape)), psi_E={}, psi_H={}), inv_permittivities=inv_eps, inv_permeabilities=1.0, detector_states={}, recording_state=None)
    dshape = tuple(hi - lo for lo, hi in db)
    rho = A.fresh_array("rho", dshape, fact=lambda v, idx: A._vand(v >= 0, v <= 1))
    orig_call = Device.__call__
    Device.__call__ = lambda self, params, expand_to_sim_grid=False, **kw: rho
    try:
        c.cover("pre")
        new_arrays, new_objs, info = I.apply_params(arrays, objs, {"dev": rho}, key=jax.random.PRNGKey(0))
    finally:
        Device.__call__ = orig_call
    inter = _intersects(db, ob)
    n_calls = len(calls)
    # apply must have been called iff needed; soundness direction only:
    c.prove("apply_params/post:intersecting_object_reapplied", A._vor(A._vnot(inter), n_calls == 1))
    if n_calls == 1:
        prove_arrays_equal("apply_params/post:reapplied_with_post_device_materials", calls[0][0], new_arrays.inv_permittivities)
        c.prove("apply_params/post:container_holds_reapplied_object", new_objs.object_list[2].color is None)


def tasks(tier, seed):
    return {
        "check_overlap": Task(_overlap_contract, max_paths=8192),
        "apply_params_reapplication": Task(_apply_params_contract, max_paths=8192),
    }


def replay(key, obligation, witness):
    """real objects on the witness boxes: does an intersecting object get skipped?"""
    from fdtdx.config import SimulationConfig
    from fdtdx.core.grid import UniformGrid
    from fdtdx.objects.static_material.static import SimulationVolume

    sc = (witness or {}).get("scalars", {})
    try:
        db = tuple((int(sc[f"d{a}lo"]), int(sc[f"d{a}hi"])) for a in range(3))
        ob = tuple((int(sc[f"o{a}lo"]), int(sc[f"o{a}hi"])) for a in range(3))
    except Exception as e:  # noqa: BLE001
        return False, f"witness incomplete: {e}"
    cfg = SimulationConfig(time=1e-15, grid=UniformGrid(spacing=1e-8), backend="cpu")
    d = scene._place(SimulationVolume(name="rdev"), db, cfg)
    o = scene._place(SimulationVolume(name="robj"), ob, cfg)
    inter = all(a0 < c1 and c0 < a1 for (a0, a1), (c0, c1) in zip(db, ob))
    got = d.check_overlap(o)
    detail = f"device box {db}, object box {ob}: boxes intersect={inter}, real check_overlap -> {got}"
    return (inter and not got), detail
