"""C33  Electric-plane symmetry reduction is exact.

Relational one-step invariant.  Full domain: 2n cells along the symmetry axis a, materials that do
not vary along a, any boundaries; reduced domain: the upper n cells with config.symmetry[a] = -1 and
the PEC symmetry wall on its min face, the same far (upper) boundary and the same transverse
boundaries.  U(R) denotes the unfolding of a reduced state R (written from the parity rules of an
electric plane: tangential E and normal H odd, normal E and tangential H even; components sampled
half a cell off the plane mirror cell i <-> 2n-1-i, components on the plane node i <-> 2n-i).

    Inv(L):  full(idx) == U(R)(idx)  for every cell whose index along a is >= L      (L >= 1)

Obligation (for all shapes, values, L):  Inv(L) before one REAL forward step of both runs implies
Inv(L+1) after it - the region the far boundary of the discarded half "cannot yet influence" shrinks
by one cell per step (stencil radius 1), which is exactly the light-cone clause of the property.
Cells below L carry arbitrary values (whatever the discarded half's far boundary produced).
Co-located detector records: a detector box touching the plane records the same values in the reduced
run (mirror halo) as the corresponding box of the full run.
"""

from __future__ import annotations

import re

from props import common as K
from vc import array as A
from vc import scene
from vc.array import SymArray
from vc.core import SymNum, ctx, ite
from vc.harness import Task
from vc.obl import prove_arrays_equal, sym_int, sym_real

ID = "C33"
LEVEL = "proof"
TECHNIQUE = "relational symbolic execution of the real update_E/update_H (and update_detector_states) on the reduced and the full domain; inductive light-cone invariant proved pointwise by z3 / ite-split ring normal form"
MODULES = K.SOLVER_MODULES + ["fdtdx.objects.detectors.field", "fdtdx.core.physics.symmetry"]
FILES = K.SOLVER_FILES + ["src/fdtdx/fdtd/symmetry.py", "src/fdtdx/core/physics/symmetry.py", "src/fdtdx/objects/detectors/detector.py"]
FUNCTIONS = [
    "fdtdx.fdtd.update.update_E / update_H (reduced run: PEC symmetry wall, zero halo behind the plane)",
    "fdtdx.fdtd.update.pad_fields_for_boundaries (symmetry axes never wrap their min-side halo)",
    "fdtdx.fdtd.update.pad_fields_with_symmetry_mirror + interpolate_fields (detector clause)",
    "fdtdx.objects.boundaries.pec.PerfectElectricConductor.apply_post_E_update",
    "fdtdx.fdtd.symmetry.unfold_fields / unfold_detector_states (tasks unfolding(C32)/*: C32's contracts for symmetry tuples with an electric plane, re-proved under this property)",
]
STUBS = ["detector schedule arrays arbitrary, with 0 <= idx[t] < rows (C14)"]
ASSUMPTIONS = [
    "real arithmetic",
    "materials do not vary along the symmetry axis (property text); isotropic/diagonal tiers and electric conductivity",
    "the reduced state has the parity of an electric plane: tangential E and normal H vanish in the plane row (both are proved to be preserved by a step)",
    "induction over steps (Inv(L) for the state after k steps with L = 1 + k) is a pencil step on top of the one-step obligation",
    "unfolding map written from the electric-plane parity rules; the repository's unfold_fields is proved equal to the same rules under C32",
]
MIN_OBLIGATIONS = {"quick": 50, "thorough": 150}
LEVEL_TEXT = "Deductive proof for all shapes, half-lengths n, light-cone offsets L, field and material values that one real forward step preserves 'full == unfold(reduced)' outside the shrinking influence region of the discarded half's far boundary; symmetry axis, far/transverse boundary kinds and tiers enumerated"
LEVEL_NOTE = "real arithmetic; one-step inductive invariant + induction; materials constant along the axis"


def parity(kind, comp, a):
    if kind == "E":
        return 1 if comp == a else -1
    return -1 if comp == a else 1


def on_plane(kind, comp, a):
    return (comp != a) if kind == "E" else (comp == a)


def unfold_value(R, kind, comp, a, n, idx):
    """U(R)[comp] at full-domain index idx (idx[a] >= 1)"""
    i = idx[a]
    upper = i >= n
    red_up = i - n
    red_lo = (n - i) if on_plane(kind, comp, a) else (n - 1 - i)
    j = ite(upper, red_up, red_lo)
    ridx = list(idx)
    ridx[a] = j
    v = R.at_index((comp,) + tuple(A._raw_index(x) for x in ridx))
    return v * ite(upper, 1, parity(kind, comp, a))


def _task(spec):
    def body(c, inp):
        import fdtdx.fdtd.update as U

        a = spec["axis"]
        far = spec["far"]  # boundary kind on the far (upper) face of axis a, also used on the full domain's lower face unless 'lower' given
        lower = spec.get("lower", far)
        trans = spec["trans"]  # ((lo,hi),(lo,hi)) for the two other axes
        red_shape = list(scene.sym_shape())
        n = red_shape[a]
        inp.scalar("n", n)
        full_shape = list(red_shape)
        full_shape[a] = n * 2
        red_shape, full_shape = tuple(red_shape), tuple(full_shape)
        rest = [x for x in range(3) if x != a]
        assign_red = [None] * 3
        assign_full = [None] * 3
        assign_red[a] = ("pec", far)
        assign_full[a] = (lower, far)
        for x, p in zip(rest, trans):
            assign_red[x] = p
            assign_full[x] = p
        sym = [0, 0, 0]
        sym[a] = -1
        cfg_r = scene.make_config(symmetry=tuple(sym))
        cfg_f = scene.make_config(courant=cfg_r.__dict__["_sym_courant"], spacing=cfg_r.grid.__dict__["spacing"])
        bnd_r = K.make_boundaries(tuple(assign_red), red_shape, cfg_r)
        bnd_r = [b.aset("_is_symmetry_wall", True) if (b.axis == a and b.direction == "-") else b for b in bnd_r]
        bnd_f = K.make_boundaries(tuple(assign_full), full_shape, cfg_f)
        L = sym_int("L", lo=1)
        c.assume((L + 1 <= n * 2).z)
        inp.scalar("L", L)
        # reduced state: wall condition on the plane row
        Ef, Hf0 = K.wall_facts(tuple(assign_red), red_shape)

        def Hf(v, idx):
            # odd parity of the normal H component: it vanishes at its own mirror point (the plane row)
            base = Hf0(v, idx)
            if idx[0] == a:
                return A._vand(base, A._vor(A._vnot(idx[1 + a] == 0), A.v_eq(v, 0)))
            return base

        tier_e, tier_m, tier_s = spec["eps"], spec["mu"], spec.get("sigE")
        red = scene.make_arrays(red_shape, eps_tier=tier_e, mu_tier=tier_m, sigE_tier=tier_s, E_fact=Ef, H_fact=Hf)
        # materials do not vary along the axis: evaluate the reduced arrays at index 0 along a
        def const_along(X, shp):
            if not isinstance(X, SymArray):
                return X
            return SymArray((X.shape[0], *shp), lambda idx: X.at_index((idx[0],) + tuple(0 if k == a else idx[1 + k] for k in range(3))), X.kind)

        def full_field(R, kind, name):
            G = A.fresh_array(name + "_below_L", (3, *full_shape))
            def fn(idx):
                w = tuple(A._wrap_idx(i) for i in idx[1:])
                return ite(w[a] >= L, unfold_value(R, kind, idx[0], a, n, w), G.at_index(idx))
            return SymArray((3, *full_shape), fn, "real")

        from fdtdx.fdtd.container import ArrayContainer, FieldState

        mats = {k: getattr(red, k) for k in ("inv_permittivities", "inv_permeabilities", "electric_conductivity")}
        red = red.aset("inv_permittivities", const_along(mats["inv_permittivities"], red_shape)).aset("inv_permeabilities", const_along(mats["inv_permeabilities"], red_shape))
        if mats["electric_conductivity"] is not None:
            red = red.aset("electric_conductivity", const_along(mats["electric_conductivity"], red_shape))
        full = ArrayContainer(
            fields=FieldState(E=full_field(red.fields.E, "E", "E"), H=full_field(red.fields.H, "H", "H"), psi_E={}, psi_H={}),
            inv_permittivities=const_along(mats["inv_permittivities"], full_shape),
            inv_permeabilities=const_along(mats["inv_permeabilities"], full_shape),
            detector_states={},
            recording_state=None,
            electric_conductivity=None if mats["electric_conductivity"] is None else const_along(mats["electric_conductivity"], full_shape),
        )
        inp.array("E_reduced", red.fields.E)
        inp.array("H_reduced", red.fields.H)
        inp.note("spec", {k: str(v) for k, v in spec.items()})
        objs_r = scene.make_objects(red_shape, cfg_r, bnd_r)
        objs_f = scene.make_objects(full_shape, cfg_f, bnd_f)
        t_arr, t = K.time_scalar("t")
        c.cover("pre")
        r1 = U.update_H(t_arr, U.update_E(t_arr, red, objs_r, cfg_r, True), objs_r, cfg_r, True)
        f1 = U.update_H(t_arr, U.update_E(t_arr, full, objs_f, cfg_f, True), objs_f, cfg_f, True)
        for kind, Xf, Xr in (("E", f1.fields.E, r1.fields.E), ("H", f1.fields.H, r1.fields.H)):
            target = SymArray((3, *full_shape), lambda idx, kind=kind, Xr=Xr: unfold_value(Xr, kind, idx[0], a, n, tuple(A._wrap_idx(i) for i in idx[1:])), "real")
            prove_arrays_equal(f"{kind}_full==unfold(reduced)_outside_influence_region", Xf, target, where=lambda idx: idx[1 + a] >= L + 1)
        # the reduced run keeps the wall condition (needed to iterate the invariant)
        from vc.obl import prove_pointwise

        prove_pointwise("reduced_wall_condition_preserved", r1.fields.E, lambda v, idx: A.v_eq(v, 0), where=lambda idx: A._vand(idx[1 + a] == 0, True) if idx[0] != a else False)
        prove_pointwise("reduced_normal_H_zero_on_plane_preserved", r1.fields.H, lambda v, idx: A.v_eq(v, 0), where=lambda idx: A._vand(idx[1 + a] == 0, True) if idx[0] == a else False)

    return body


def _detector_task(spec):
    """co-located detector records: a FieldDetector box touching the plane in the reduced run (mirror halo)
    against the box at the same physical cells in the full run (ordinary neighbours)"""

    def body(c, inp):
        import fdtdx
        import fdtdx.fdtd.update as U
        from fdtdx.fdtd.container import ArrayContainer, FieldState

        a = spec["axis"]
        far, trans = spec["far"], spec["trans"]
        red_shape = list(scene.sym_shape())
        n = red_shape[a]
        inp.scalar("n", n)
        full_shape = list(red_shape)
        full_shape[a] = n * 2
        red_shape, full_shape = tuple(red_shape), tuple(full_shape)
        rest = [x for x in range(3) if x != a]
        assign_red, assign_full = [None] * 3, [None] * 3
        assign_red[a], assign_full[a] = ("pec", far), (far, far)
        for x, p in zip(rest, trans):
            assign_red[x] = assign_full[x] = p
        sym = [0, 0, 0]
        sym[a] = -1
        cfg_r = scene.make_config(symmetry=tuple(sym))
        cfg_f = scene.make_config(courant=cfg_r.__dict__["_sym_courant"], spacing=cfg_r.grid.__dict__["spacing"])
        bnd_r = K.make_boundaries(tuple(assign_red), red_shape, cfg_r)
        bnd_r = [b.aset("_is_symmetry_wall", True) if (b.axis == a and b.direction == "-") else b for b in bnd_r]
        bnd_f = K.make_boundaries(tuple(assign_full), full_shape, cfg_f)
        L = sym_int("L", lo=1)
        c.assume((L + 1 <= n * 2).z)
        inp.scalar("L", L)
        d = sym_int("d", lo=1)
        c.assume((d <= n).z)
        inp.scalar("d", d)
        T = K.sym_time_total()
        rows = sym_int("rows", lo=1)
        Ef, Hf0 = K.wall_facts(tuple(assign_red), red_shape)

        def Hf(v, idx):
            base = Hf0(v, idx)
            if idx[0] == a:
                return A._vand(base, A._vor(A._vnot(idx[1 + a] == 0), A.v_eq(v, 0)))
            return base

        red = scene.make_arrays(red_shape, eps_tier=1, mu_tier="scalar", E_fact=Ef, H_fact=Hf)
        Hprev_r = A.fresh_array("H_prev", (3, *red_shape), "real", fact=Hf)

        def full_field(R, kind, name):
            G = A.fresh_array(name + "_below_L", (3, *full_shape))

            def fn(idx):
                w = tuple(A._wrap_idx(i) for i in idx[1:])
                return ite(w[a] >= L, unfold_value(R, kind, idx[0], a, n, w), G.at_index(idx))

            return SymArray((3, *full_shape), fn, "real")

        def detector(box, cfg):
            det = fdtdx.FieldDetector(name="det", exact_interpolation=True)
            det = scene._place(det, box, cfg)
            det = det.aset("_is_on_at_time_step_arr", A.full((T,), True, "bool"), create_new_ok=True)
            return det.aset("_time_step_to_arr_idx", idxmap, create_new_ok=True)

        idxmap = A.fresh_array("idxmap", (T,), "int", fact=lambda v, i: A._vand(v >= 0, v < rows))
        box_r = [(0, m) for m in red_shape]
        box_r[a] = (0, d)
        box_f = [(0, m) for m in full_shape]
        box_f[a] = (n, n + d)
        dshape = tuple(hi - lo for lo, hi in box_r)
        state0 = A.fresh_array("state", (rows, 6, *dshape), "real")
        red = red.aset("detector_states", {"det": {"fields": state0}})
        full = ArrayContainer(
            fields=FieldState(E=full_field(red.fields.E, "E", "E"), H=full_field(red.fields.H, "H", "H"), psi_E={}, psi_H={}),
            inv_permittivities=A.fresh_array("inv_eps_full", (1, *full_shape), fact=lambda v, i: v > 0),
            inv_permeabilities=1.0,
            detector_states={"det": {"fields": state0}},
            recording_state=None,
        )
        Hprev_f = full_field(Hprev_r, "H", "H_prev")
        inp.array("E_reduced", red.fields.E)
        inp.array("H_reduced", red.fields.H)
        inp.array("H_prev_reduced", Hprev_r)
        inp.note("spec", {k: str(v) for k, v in spec.items()})
        objs_r = scene.make_objects(red_shape, cfg_r, bnd_r, [detector(box_r, cfg_r)])
        objs_f = scene.make_objects(full_shape, cfg_f, bnd_f, [detector(box_f, cfg_f)])
        t_arr, t = K.time_scalar("t")
        c.assume((t < T).z)
        c.cover("pre")
        new_r = U.update_detector_states(t_arr, red, objs_r, cfg_r, Hprev_r, inverse=False).detector_states["det"]["fields"]
        new_f = U.update_detector_states(t_arr, full, objs_f, cfg_f, Hprev_f, inverse=False).detector_states["det"]["fields"]
        # the co-location stencil reads one cell below: full index n + j needs n + j - 1 >= L
        prove_arrays_equal("detector_record_full==reduced_outside_influence_region", new_f, new_r, where=lambda idx: idx[2 + a] + n >= L + 1)

    return body


def tasks(tier, seed):
    out = {}
    fars = [None, "pec", "pmc"] if tier == "quick" else [None, "pec", "pmc"]
    trans_opts = [((None, None), ("periodic", "periodic")), (("pec", "pmc"), (None, None))]
    for a in range(3):
        for fi, far in enumerate(fars):
            for ti, tr in enumerate(trans_opts if (tier == "thorough" or fi == 0) else trans_opts[:1]):
                for e, m, s in [(3, 3, 3), (1, "scalar", None)] if (tier == "thorough" or (fi == 0 and ti == 0)) else [(3, 1, 1)]:
                    out[f"axis{a}/far={far}/trans{ti}/e{e}m{m}s{s}"] = Task(_task(dict(axis=a, far=far, trans=tr, eps=e, mu=m, sigE=s)), max_paths=256)
        # the discarded half's far boundary may differ in kind from the kept one (it only matters inside the influence region)
        out[f"axis{a}/far=None/lower=pmc"] = Task(_task(dict(axis=a, far=None, lower="pmc", trans=trans_opts[0], eps=3, mu=1, sigE=None)), max_paths=256)
        for fi, far in enumerate(fars if tier == "thorough" else fars[:2]):
            for ti, tr in enumerate(trans_opts if (tier == "thorough" or fi == 0) else trans_opts[:1]):
                out[f"detector/axis{a}/far={far}/trans{ti}"] = Task(_detector_task(dict(axis=a, far=far, trans=tr)), max_paths=256)
    # "running the reduced domain AND UNFOLDING gives the same ... records": the unfolding of fields and of stored
    # detector records (unfold_fields / unfold_detector_states: parity per stored component, mirror pairing) is
    # C32's contract; its tasks on symmetry tuples with an electric plane are re-proved here on the same real
    # code, so that a change to the unfolding fails under this property as well.
    import props.C32 as P32

    for k, t in P32.tasks(tier, seed).items():
        grp, _, rest = k.partition("/")
        if grp in ("detectors", "unfold_fields") and "e" in rest.split("/")[0]:
            out[f"unfolding(C32)/{k}"] = Task(t.body, modules=P32.MODULES, axioms=t.axioms, on_exception=t.on_exception, extra_patch=t.extra_patch, bounded=t.bounded, max_paths=t.max_paths, patch_names=t.patch_names)
    return out


# ---------------------------------------------------------------------------------------------
# replay on the real code (real JAX, concrete arrays)


def _np_unfold(R, kind, a, n, rng):
    """numpy unfolding of a reduced field (3, ...) to the full domain; row 0 along a (not determined by the
    reduced run for on-plane components) is filled with random values"""
    import numpy as np

    shp = list(R.shape)
    shp[1 + a] = 2 * n
    out = np.zeros(shp, dtype=R.dtype)
    for comp in range(3):
        p, onp = parity(kind, comp, a), on_plane(kind, comp, a)
        for i in range(2 * n):
            dst = [slice(None)] * 3
            dst[a] = i
            src = [slice(None)] * 3
            if i >= n:
                src[a], f = i - n, 1
            elif i == 0:
                out[(comp, *dst)] = rng.normal(size=out[(comp, *dst)].shape)
                continue
            else:
                src[a], f = (n - i) if onp else (n - 1 - i), p
            out[(comp, *dst)] = f * R[(comp, *src)]
    return out


def replay(key, obligation, witness):
    if key.startswith("unfolding(C32)/"):
        import props.C32 as P32

        return P32.replay(key.split("/", 1)[1], obligation, witness)
    return _replay_step(key, obligation, witness)


def _replay_step(key, obligation, witness):
    """real update_E/update_H (and update_detector_states) under real JAX on a concrete reduced domain and on
    the full domain built from it by unfolding (materials constant along the axis); compares full with
    unfold(reduced) outside the influence region after 1..n-1 steps, and the co-located detector records"""
    import ast

    import jax.numpy as jnp
    import numpy as np

    import fdtdx
    import fdtdx.fdtd.update as U
    from fdtdx.fdtd.container import ObjectContainer

    note = ((witness or {}).get("notes") or {}).get("spec") or {}
    spec = {}
    for k, v in note.items():
        try:
            spec[k] = ast.literal_eval(v)
        except Exception:  # noqa: BLE001
            spec[k] = v
    if "axis" not in spec:
        m = re.search(r"axis(\d)", key)
        spec = dict(axis=int(m.group(1)) if m else 0, far=None, trans=((None, None), ("periodic", "periodic")), eps=3, mu=1, sigE=None)
    a, far, trans = spec["axis"], spec.get("far"), spec["trans"]
    lower = spec.get("lower", far)
    rest = [x for x in range(3) if x != a]
    assign_red, assign_full = [None] * 3, [None] * 3
    assign_red[a], assign_full[a] = ("pec", far), (lower, far)
    for x, p in zip(rest, trans):
        assign_red[x] = assign_full[x] = tuple(p)
    sym = [0, 0, 0]
    sym[a] = -1
    details, bad = [], False
    for trial, n in enumerate((3, 4)):
        red_shape = [3, 2, 4]
        red_shape[a] = n
        wit = {"scalars": {f"N{c}": red_shape[i] for i, c in enumerate("xyz")}}
        eps_t, mu_t, sig_t = spec.get("eps", 3), spec.get("mu", 1), spec.get("sigE")
        shape, cfg_r, objs_r, red, rng = K.concrete_scene(dict(bnd=tuple(assign_red), eps=eps_t, mu=mu_t, sigE=sig_t, symmetry=tuple(sym)), wit, seed=trial, min_dim=2)
        objs_r = [o.aset("_is_symmetry_wall", True) if (getattr(o, "axis", None) == a and getattr(o, "direction", None) == "-") else o for o in objs_r]
        full_shape = list(shape)
        full_shape[a] = 2 * n
        wit_f = {"scalars": {f"N{c}": full_shape[i] for i, c in enumerate("xyz")}}
        _, cfg_f, objs_f, full, _ = K.concrete_scene(dict(bnd=tuple(assign_full), eps=eps_t, mu=mu_t, sigE=sig_t), wit_f, seed=trial, min_dim=2)

        def const_along(X, length):
            if not hasattr(X, "shape") or getattr(X, "ndim", 0) == 0:
                return X
            sl = [slice(None)] * 4
            sl[1 + a] = slice(0, 1)
            return jnp.repeat(jnp.asarray(X)[tuple(sl)], length, axis=1 + a)

        for nm in ("inv_permittivities", "inv_permeabilities", "electric_conductivity"):
            v = getattr(red, nm)
            if v is None:
                continue
            red = red.aset(nm, const_along(v, n))
            full = full.aset(nm, const_along(v, 2 * n))
        E = np.array(red.fields.E)
        H = np.array(red.fields.H)
        Hp = np.array(rng.normal(size=H.shape))
        sl = [slice(None)] * 3
        sl[a] = 0
        for comp in range(3):
            if comp != a:
                E[(comp, *sl)] = 0
        H[(a, *sl)] = 0
        Hp[(a, *sl)] = 0
        for ax, (lo, hi) in enumerate(assign_red):  # H_prev obeys the same PMC wall conditions as H
            for kind, face in ((lo, 0), (hi, shape[ax] - 1)):
                if kind == "pmc":
                    for comp in range(3):
                        if comp != ax:
                            s2 = [slice(None)] * 3
                            s2[ax] = face
                            Hp[(comp, *s2)] = 0
        red = red.aset("fields->E", jnp.asarray(E)).aset("fields->H", jnp.asarray(H))
        full = full.aset("fields->E", jnp.asarray(_np_unfold(E, "E", a, n, rng))).aset("fields->H", jnp.asarray(_np_unfold(H, "H", a, n, rng)))
        scale = 1.0
        if key.startswith("detector"):
            T = 3
            d = max(1, n - 1)
            box_r = [(0, m) for m in shape]
            box_r[a] = (0, d)
            box_f = [(0, m) for m in full_shape]
            box_f[a] = (n, n + d)

            def det(box, cfg):
                dd = fdtdx.FieldDetector(name="det", exact_interpolation=True, dtype=jnp.float64)
                dd = scene._place(dd, box, cfg)
                dd = dd.aset("_is_on_at_time_step_arr", jnp.ones((T,), dtype=bool), create_new_ok=True)
                return dd.aset("_time_step_to_arr_idx", jnp.arange(T, dtype=jnp.int32), create_new_ok=True)

            dshape = tuple(hi - lo for lo, hi in box_r)
            st = {"det": {"fields": jnp.zeros((T, 6, *dshape))}}
            oc_r = ObjectContainer(object_list=[*objs_r, det(box_r, cfg_r)], volume_idx=0)
            oc_f = ObjectContainer(object_list=[*objs_f, det(box_f, cfg_f)], volume_idx=0)
            t = jnp.asarray(1, dtype=jnp.int32)
            import jax

            with jax.disable_jit():  # the hand-built config is not a valid jit operand (detector carries it)
                rr = U.update_detector_states(t, red.aset("detector_states", st), oc_r, cfg_r, jnp.asarray(Hp), inverse=False).detector_states["det"]["fields"]
                rf = U.update_detector_states(t, full.aset("detector_states", st), oc_f, cfg_f, jnp.asarray(_np_unfold(Hp, "H", a, n, rng)), inverse=False).detector_states["det"]["fields"]
            diff = K.max_abs_diff(rr, rf)
            details.append(f"n={n}, detector box [0,{d}) vs [{n},{n + d}) along axis {a}: max |record_full - record_reduced| = {diff:.3e}")
            bad |= diff > 1e-9 * scale
            continue
        oc_r = ObjectContainer(object_list=objs_r, volume_idx=0)
        oc_f = ObjectContainer(object_list=objs_f, volume_idx=0)
        r, f = red, full
        for step in range(1, n):
            t = jnp.asarray(step, dtype=jnp.int32)
            r = U.update_H(t, U.update_E(t, r, oc_r, cfg_r, True), oc_r, cfg_r, True)
            f = U.update_H(t, U.update_E(t, f, oc_f, cfg_f, True), oc_f, cfg_f, True)
            L = 1 + step
            for kind, Xr, Xf in (("E", r.fields.E, f.fields.E), ("H", r.fields.H, f.fields.H)):
                tgt = _np_unfold(np.array(Xr), kind, a, n, rng)
                s3 = [slice(None)] * 4
                s3[1 + a] = slice(L, None)
                diff = K.max_abs_diff(np.array(Xf)[tuple(s3)], tgt[tuple(s3)])
                mag = float(np.max(np.abs(tgt[tuple(s3)]))) or 1.0
                if diff > 1e-9 * mag:
                    bad = True
                    details.append(f"n={n}, after {step} step(s): {kind} full vs unfold(reduced) on rows >= {L} along axis {a}: max abs diff {diff:.3e} (scale {mag:.2e})")
            # the reduced run keeps its wall conditions
            w = float(np.max(np.abs(np.array(r.fields.E)[[c for c in range(3) if c != a]][(slice(None), *sl)])))
            if w > 1e-12:
                bad = True
                details.append(f"n={n}, after {step} step(s): tangential E on the plane row of the reduced run = {w:.3e}")
        details.append(f"n={n}: {n - 1} real steps compared on reduced shape {tuple(shape)} / full shape {tuple(full_shape)}")
    return bad, "\n".join(details)
