"""C35  Dispersion coefficients encode the declared pole model.

Contracts (all on the REAL functions of fdtdx.dispersion / fdtdx.materials, symbolic pole parameters)

  compute_pole_coefficients_per_axis / compute_pole_coefficients / compute_pole_coefficients_tensor
      requires  dt > 0, omega_0 >= 0, omega_0*dt < 2, gamma >= 0          (property text + parameter docs)
      ensures   (i)  susceptibility_from_coefficients(c1, c2, c3, omega, dt, c4) == chi_declared(omega)
                     for every real omega at which chi_declared is finite, per axis (per tensor entry
                     chi_p(omega) u_i u_j for oriented poles), summed over the poles;
                (ii) |c2| <= 1 and |c1| <= 1 - c2   (Jury), and directly: every complex root z of
                     z^2 - c1 z - c2 = 0 satisfies |z| <= 1;
                (iii) c4 == 0 for Lorentz / Drude poles.
  DispersionModel.susceptibility_axes / susceptibility_tensor == chi_declared   (the model's own evaluator)
  compute_allowed_dispersive_coefficients
      ensures   a material's zero-padded pole slots and non-dispersive materials contribute exactly 0 to
                susceptibility_from_coefficients.

chi_declared is written down here from the documented pole models (it never reads the unified
(omega_0, gamma, a, b) accessors of the code under verification):
  Lorentz         d_eps*w0^2 / (w0^2 - w^2 - i g w)
  Drude           -wp^2 / (w^2 + i g w)
  CCPR            r/(-i w - q) + conj(r)/(-i w - conj(q))
  critical point  A*W*[ e^{i phi}/(W - w - i G) + e^{-i phi}/(W + w + i G) ]

NOT covered: the asymptotic clause (the recurrence's own frequency response approaches the model with
relative error O((omega dt)^2)); it needs series bounds for cos/sin and is outside the engine.
"""

from __future__ import annotations

import itertools
import sys
import types

import z3

from spec.C35_rational import prove_rational_equal
from spec.C35_shims import sym_complex, sym_np
from vc import array as A
from vc.core import SymNum, _num_parts, ctx, to_z3_real
from vc.harness import Task
from vc.obl import sym_real

ID = "C35"
LEVEL = "proof"
TECHNIQUE = "symbolic execution of the real coefficient / inverse-mapping functions on symbolic pole parameters; rational identities by exact ring normal form (guards resolved by z3, divisors shown non-zero by z3); Jury inequalities and the root bound by z3 (nonlinear real arithmetic)"
MODULES = ["fdtdx.dispersion", "fdtdx.materials", "fdtdx.core.jax.pytrees"]
FILES = ["src/fdtdx/dispersion.py", "src/fdtdx/materials.py"]
FUNCTIONS = [
    "fdtdx.dispersion.compute_pole_coefficients_per_axis",
    "fdtdx.dispersion.compute_pole_coefficients",
    "fdtdx.dispersion.compute_pole_coefficients_tensor",
    "fdtdx.dispersion.susceptibility_from_coefficients",
    "fdtdx.dispersion.DispersionModel.susceptibility_axes / susceptibility_tensor",
    "fdtdx.dispersion.LorentzPole / DrudePole / CCPRPole (omega_0_axes, gamma_axes, coupling_sq_axes, coupling_edot_axes)",
    "fdtdx.dispersion.CCPRPole.from_critical_point",
    "fdtdx.materials.compute_allowed_dispersive_coefficients (zero padding)",
]
INLINED = ["fdtdx.dispersion._broadcast_axis_param", "fdtdx.dispersion._expand_recurrence_to_coupling", "fdtdx.materials.compute_ordered_material_name_tuples"]
STUBS = [
    "numpy float buffers replaced by numpy object buffers (same numpy indexing/assignment/ufunc code, Python operators on the elements): spec/C35_shims.sym_np",
    "builtin complex() is the identity on symbolic values: spec/C35_shims.sym_complex",
    "cmath.exp(i*phi) = cos(phi) + i*sin(phi) with cos/sin uninterpreted (the identities hold for every value of the pair)",
    "sqrt uninterpreted with axiom x >= 0 => sqrt(x) >= 0 and sqrt(x)^2 = x (|q| of a CCPR pole)",
    "Pole._validate_orientation (normalisation of the orientation vector) is bypassed: the oriented obligations hold for EVERY vector u, unit or not",
]
ASSUMPTIONS = [
    "preconditions from the property text: dt > 0, omega_0*dt < 2, damping gamma >= 0; additionally omega_0 >= 0 (documented 'Must be > 0'; a negative resonance frequency with |omega_0| dt >= 2 passes the code's `omega0_dt >= 2.0` guard and is outside the property's domain)",
    "omega real and not a singularity of the declared model (denominator non-zero)",
    "oriented poles: coupling K >= 0 (the code rejects K < 0 with ValueError) and no dE/dt coupling (rejected at construction)",
    "per-axis activity classes are fixed structurally per task (Lorentz/Drude: A strength != 0, I strength literally 0; CCPR: G Re(r) != 0 (a unconstrained), L Re(r) = 0 with Im(r), Im(q) != 0, I r = 0; critical point: G A, sin(phi) != 0, L sin(phi) = 0 with A, cos(phi) != 0, I A = 0); quick tier: a rotating subset in which every axis takes every class, thorough tier: all combinations",
    "not covered: the degenerate CCPR pair with a real pole and a purely imaginary non-zero residue (a = b = 0 although r != 0; its declared susceptibility is identically 0)",
    "off-diagonal tensor entries (j,k) of axis-aligned poles are claimed to be 0 at the frequencies where row j's own model is finite (the code evaluates 0/denominator_j there)",
    "the asymptotic clause (relative error O((omega dt)^2) of the recurrence's own frequency response) is NOT covered",
]
MIN_OBLIGATIONS = {"quick": 1000, "thorough": 3000}
LEVEL_TEXT = (
    "Deductive proof, for all pole parameters, time steps and frequencies in the stated domain, that the real inverse mapping applied to the real "
    "coefficient functions returns the declared Lorentz / Drude / CCPR / critical-point susceptibility (per-axis, scalar, tensor and oriented variants, "
    "sums over poles, zero-padded slots), that the Jury conditions hold and that every root of z^2 - c1 z - c2 lies in the closed unit disk"
)
LEVEL_NOTE = "exact real arithmetic instead of IEEE-754; the O((omega dt)^2) asymptotic clause is not covered; numpy buffers modelled by numpy object buffers; orientation normalisation bypassed (obligations hold for every u)"


def _sqrt_axiom(args, term, apps):
    return [z3.Implies(args[0] >= 0, z3.And(term >= 0, term * term == args[0]))]


AXIOMS = {"sqrt": [_sqrt_axiom]}

_PATCH = {
    "fdtdx.dispersion": {"np": sym_np(), "complex": sym_complex},
    "fdtdx.materials": {"np": sym_np(), "complex": sym_complex},
}


# ---------------------------------------------------------------------------------------
# symbolic poles + their declared susceptibility
# ---------------------------------------------------------------------------------------


class _Fake_cmath(types.ModuleType):
    """cmath whose exp(i*phi) returns the given pair (cos phi, sin phi)"""

    def __init__(self, cos_sin):
        super().__init__("cmath")
        import cmath as real

        self.__dict__.update({k: getattr(real, k) for k in dir(real) if not k.startswith("__")})

        def exp(z):
            if isinstance(z, SymNum) and z.im is not None and not A.is_sym(z.real) and z.real == 0:
                return cos_sin[0] + 1j * cos_sin[1]
            raise A.Unsupported("cmath.exp of a value that is not i*phase")

        self.exp = exp


def _abs2(den):
    """|den|^2 of a complex value: den != 0 iff |den|^2 != 0"""
    re, im = den.real, den.imag
    return re * re + im * im


class _P:
    """a symbolic pole: real Pole object + declared model + the facts the property assumes"""

    def __init__(self, pole, chi, den_nz, scalars, relations=()):
        self.pole = pole
        self.chi = chi  # chi(ax, omega) -> complex value
        self.den_nz = den_nz  # den_nz(ax, omega) -> list of real values |denominator|^2, assumed != 0
        self.scalars = scalars
        self.relations = list(relations)


def _axes(name, n, **kw):
    return [sym_real(f"{name}{'xyz'[a]}", **kw) for a in range(n)]


def _lorentz(c, inp, dt, tag="", classes="AAA", uniform=False, orientation=None, assume_resolved=True):
    """assume_resolved=False: the resonances are NOT assumed to be resolved (omega_0 dt < 2); the caller then
    judges the code's own acceptance gate: it may raise only when an active axis is unresolved, and what it
    accepts must satisfy the Jury conditions"""
    import fdtdx.dispersion as D

    n = 1 if uniform else 3
    w0 = _axes(f"{tag}w0", n, lo_strict=0)
    g = _axes(f"{tag}gamma", n, lo=0)
    de = _axes(f"{tag}deps", n)
    for a in range(n):
        if assume_resolved:
            c.assume((w0[a] * dt < 2).z)
        inp.scalar(f"{tag}w0{a}", w0[a])
        inp.scalar(f"{tag}gamma{a}", g[a])
        inp.scalar(f"{tag}deps{a}", de[a])
        if classes[a] == "A":
            c.assume(A._tobool(de[a] != 0))
        else:
            de[a] = 0.0  # the documented way to switch an axis off
    if uniform:
        w0, g, de = w0 * 3, g * 3, de * 3
        pole = D.LorentzPole(resonance_frequency=w0[0], damping=g[0], delta_epsilon=de[0])
    else:
        pole = D.LorentzPole(resonance_frequency=tuple(w0), damping=tuple(g), delta_epsilon=tuple(de))
    if orientation is not None:
        c.assume(A._tobool(de[0] >= 0))
        pole = pole.aset("orientation", orientation)

    def den(ax, om):
        return (w0[ax] * w0[ax] - om * om) - 1j * (g[ax] * om)

    P = _P(pole, lambda ax, om: (de[ax] * w0[ax] * w0[ax]) / den(ax, om), lambda ax, om: [_abs2(den(ax, om))], dict(kind="lorentz"))
    # documented rejection rule of the coefficient functions: some ACTIVE axis (strength != 0) has omega_0 dt >= 2
    def unresolved_active():
        res = False
        for a in range(n):
            if classes[a] == "A":
                res = A._vor(res, A._tobool(w0[a] * dt >= 2))
        return res

    P.unresolved_active = unresolved_active
    P.axis_resolved = lambda a: A._tobool(w0[min(a, n - 1)] * dt < 2)
    P.axis_class = lambda a: classes[min(a, n - 1)]
    return P


def _drude(c, inp, dt, tag="", classes="AAA", uniform=False, orientation=None):
    import fdtdx.dispersion as D

    n = 1 if uniform else 3
    wp = _axes(f"{tag}wp", n)
    g = _axes(f"{tag}gamma", n, lo=0)
    for a in range(n):
        inp.scalar(f"{tag}wp{a}", wp[a])
        inp.scalar(f"{tag}gamma{a}", g[a])
        if classes[a] == "A":
            c.assume(A._tobool(wp[a] != 0))
        else:
            wp[a] = 0.0
    if uniform:
        wp, g = wp * 3, g * 3
        pole = D.DrudePole(plasma_frequency=wp[0], damping=g[0])
    else:
        pole = D.DrudePole(plasma_frequency=tuple(wp), damping=tuple(g))
    if orientation is not None:
        pole = pole.aset("orientation", orientation)

    def den(ax, om):
        return (om * om) + 1j * (g[ax] * om)

    return _P(pole, lambda ax, om: -(wp[ax] * wp[ax]) / den(ax, om), lambda ax, om: [_abs2(den(ax, om))], dict(kind="drude"))


def _ccpr(c, inp, dt, tag="", classes="GGG", uniform=False, orientation=None):
    """general complex-conjugate pole-residue pair q = qr + i qi (qr <= 0), r = rr + i ri.
    Per-axis classes (they fix which of the code's activity / mask branches is taken, structurally):
      G  generic: Re r != 0 (dE/dt coupling b != 0); the E coupling a is unconstrained (may be 0)
      L  Lorentz-like: Re r = 0, Im r != 0, Im q != 0      (b = 0, a != 0)
      I  r = 0                                              (a = b = 0: inactive axis)
      J  Re r = 0, Im q = 0 (real pole, imaginary residue)  (a = b = 0, declared model is identically 0)"""
    import fdtdx.dispersion as D

    n = 1 if uniform else 3
    qr = _axes(f"{tag}qre", n, hi=0)
    qi = _axes(f"{tag}qim", n)
    rr = _axes(f"{tag}rre", n)
    ri = _axes(f"{tag}rim", n)
    q, r = [], []
    for a in range(n):
        for nm, v in (("qre", qr), ("qim", qi), ("rre", rr), ("rim", ri)):
            inp.scalar(f"{tag}{nm}{a}", v[a])
        cls = classes[a]
        if orientation is not None and cls == "G":
            cls = "L"  # oriented poles must not carry a dE/dt coupling (b = 2 Re r = 0)
        if cls == "G":
            c.assume(A._tobool(rr[a] != 0))
        elif cls == "L":
            rr[a] = 0.0
            c.assume(A._tobool(ri[a] != 0))
            c.assume(A._tobool(qi[a] != 0))
        elif cls == "I":
            rr[a], ri[a] = 0.0, 0.0
        elif cls == "J":
            rr[a], qi[a] = 0.0, 0.0
        else:
            raise ValueError(cls)
        q.append(qr[a] + 1j * qi[a])
        r.append(rr[a] + 1j * ri[a])
        if orientation is not None:
            c.assume(A._tobool(-2 * (rr[a] * qr[a] + ri[a] * qi[a]) >= 0))
    if uniform:
        q, r = q * 3, r * 3
        pole = D.CCPRPole(pole=q[0], residue=r[0])
    else:
        pole = D.CCPRPole(pole=tuple(q), residue=tuple(r))
    rel = []
    w0s = pole.omega_0_axes
    for a in range(3 if not uniform else 1):
        c.assume(A._tobool(w0s[a] * dt < 2))  # the property's omega_0*dt < 2 on the pole's own omega_0 = |q|
        if isinstance(w0s[a], SymNum):
            rel.append((w0s[a].re, to_z3_real(_num_parts(q[a].real * q[a].real + q[a].imag * q[a].imag)[0])))
    if orientation is not None:
        pole = pole.aset("orientation", orientation)

    def chi(ax, om):
        s = -1j * om
        return r[ax] / (s - q[ax]) + _conj(r[ax]) / (s - _conj(q[ax]))

    def nz(ax, om):
        s = -1j * om
        return [_abs2(s - q[ax]), _abs2(s - _conj(q[ax]))]

    return _P(pole, chi, nz, dict(kind="ccpr"), relations=rel)


def _conj(v):
    return v.conjugate()


def _critical_point(c, inp, dt, tag="", classes="GGG", uniform=True, orientation=None):
    """CCPRPole.from_critical_point(A, phi, W, G): isotropic by construction.  (cos phi, sin phi) is an
    arbitrary pair (C, S).  Classes: G  A != 0, S != 0 (b != 0);  L  S = 0, A != 0, C != 0 (b = 0, a != 0);
    I  A = 0 (inactive)."""
    import fdtdx.dispersion as D

    cls = classes[0]
    amp = sym_real(f"{tag}amplitude")
    phi = sym_real(f"{tag}phase")
    W = sym_real(f"{tag}Omega", lo_strict=0)
    G = sym_real(f"{tag}Gamma", lo=0)
    C, S = sym_real(f"{tag}cos_phase"), sym_real(f"{tag}sin_phase")
    for nm, v in (("amplitude", amp), ("Omega", W), ("Gamma", G), ("cos_phase", C), ("sin_phase", S)):
        inp.scalar(f"{tag}{nm}", v)
    if cls == "G":
        c.assume(A._tobool(amp != 0))
        c.assume(A._tobool(S != 0))
    elif cls == "L":
        S = 0.0
        c.assume(A._tobool(amp != 0))
        c.assume(A._tobool(C != 0))
    else:
        amp = 0.0
    saved = sys.modules.get("cmath")
    sys.modules["cmath"] = _Fake_cmath((C, S))
    try:
        pole = D.CCPRPole.from_critical_point(amplitude=amp, phase=phi, resonance_frequency=W, damping=G)
    finally:
        if saved is None:
            sys.modules.pop("cmath", None)
        else:
            sys.modules["cmath"] = saved
    e_p, e_m = C + 1j * S, C - 1j * S
    w0 = pole.omega_0_axes[0]
    c.assume(A._tobool(w0 * dt < 2))
    rel = [(w0.re, (G * G + W * W).re)]

    def chi(ax, om):
        return amp * W * (e_p / ((W - om) - 1j * G) + e_m / ((W + om) + 1j * G))

    def nz(ax, om):
        return [_abs2((W - om) - 1j * G), _abs2((W + om) + 1j * G)]

    return _P(pole, chi, nz, dict(kind="critical_point"), relations=rel)


_KINDS = {"lorentz": _lorentz, "drude": _drude, "ccpr": _ccpr, "critical_point": _critical_point}


# ---------------------------------------------------------------------------------------
# obligations
# ---------------------------------------------------------------------------------------


def _common(c, inp):
    dt = sym_real("dt", lo_strict=0)
    om = sym_real("omega")
    inp.scalar("dt", dt)
    inp.scalar("omega", om)
    return dt, om


def _stability(c, name, c1, c2, extra_hyps=()):
    """Jury conditions for the recurrence p' = c1 p + c2 p_prev (together with the task `jury_theorem`
    they give: no root of z^2 - c1 z - c2 lies outside the unit circle)"""
    c.prove(f"{name}/jury:|c2|<=1", A._vand(c2 >= -1, c2 <= 1), extra_hyps=extra_hyps)
    c.prove(f"{name}/jury:|c1|<=1-c2", A._vand(c1 <= 1 - c2, -c1 <= 1 - c2), extra_hyps=extra_hyps)


def _jury_theorem(c, inp):
    """for ALL real k1, k2 with |k2| <= 1 and |k1| <= 1 - k2: every complex root z = x + i y of
    z^2 - k1 z - k2 = 0 satisfies |z|^2 <= 1   (composition lemma for the per-pole Jury obligations)"""
    k1, k2 = sym_real("k1"), sym_real("k2")
    x, y = sym_real("root_re"), sym_real("root_im")
    for nm, v in (("k1", k1), ("k2", k2), ("root_re", x), ("root_im", y)):
        inp.scalar(nm, v)
    c.assume(A._vand(k2 >= -1, k2 <= 1))
    c.assume(A._vand(k1 <= 1 - k2, -k1 <= 1 - k2))
    c.assume(A._tobool(x * x - y * y - k1 * x - k2 == 0))
    c.assume(A._tobool(2 * x * y - k1 * y == 0))
    c.cover("pre")
    c.prove("jury=>roots_in_closed_unit_disk", x * x + y * y <= 1)


def _tid(v):
    """identity of a value: z3 term id for symbolic reals, the value itself otherwise"""
    if isinstance(v, SymNum) and v.im is None and hasattr(v.re, "get_id"):
        return ("t", v.re.get_id())
    return ("v", v)


def _split_inactive(triples):
    """make the pole mask of susceptibility_from_coefficients, (c1 != 0) | (c3 != 0) | (c4 != 0),
    decided on this path: where both couplings are literally zero, fork on c1 != 0 so that the guards
    of the selections can be resolved (non-zero couplings are recognised from their normal form)"""
    for c1v, c3v, c4v in triples:
        if not A.is_sym(c3v) and not A.is_sym(c4v) and c3v == 0 and c4v == 0 and A.is_sym(c1v):
            bool(c1v != 0)


def _per_axis(kind, classes, variant):
    """variant: 'per_axis' (compute_pole_coefficients_per_axis), 'scalar' (compute_pole_coefficients),
    'tensor' (compute_pole_coefficients_tensor, non-oriented)"""

    def body(c, inp):
        import fdtdx.dispersion as D

        dt, om = _common(c, inp)
        uniform = variant == "scalar" or kind == "critical_point"
        P = _KINDS[kind](c, inp, dt, classes=classes, uniform=uniform, **({"assume_resolved": False} if kind == "lorentz" else {}))
        inp.note("case", dict(kind=kind, classes=classes, variant=variant))
        c.cover("pre")
        fn = {"per_axis": D.compute_pole_coefficients_per_axis, "scalar": D.compute_pole_coefficients, "tensor": D.compute_pole_coefficients_tensor}[variant]
        if kind == "lorentz":
            # the acceptance gate is part of the contract ("media that placement accepts ... do not grow", C36):
            # a raise must be the documented one, and everything accepted must pass the Jury obligations below
            try:
                c1, c2, c3, c4 = fn((P.pole,), dt)
            except ValueError:
                c.prove("gate:raises_only_for_an_unresolved_active_axis", P.unresolved_active())
                return
            c.prove("gate:accepts_only_resolved_active_axes", A._vnot(P.unresolved_active()) if P.unresolved_active() is not False else True)
        else:
            c1, c2, c3, c4 = fn((P.pole,), dt)
        shapes = {"per_axis": ((1, 3),) * 4, "scalar": ((1,),) * 4, "tensor": ((1, 3), (1, 3), (1, 9), (1, 9))}[variant]
        c.prove("shapes", tuple(x.shape for x in (c1, c2, c3, c4)) == shapes)
        if kind in ("lorentz", "drude"):
            c.prove("c4_is_zero", all(A.v_eq(v, 0) is True for v in c4.ravel()))
        n_ax = 1 if variant == "scalar" else 3
        seen = set()
        for ax in range(n_ax):
            i = (0,) if variant == "scalar" else (0, ax)
            key = (_tid(c1[i]), _tid(c2[i]))
            if key in seen:
                c.prove(f"axis{ax}/jury:same_coefficients_as_an_earlier_axis", True)
                continue
            seen.add(key)
            if kind == "lorentz" and P.axis_class(ax) == "I":
                # an axis switched off by a literally zero strength is exempt from the gate (documented): it is
                # inert - no coupling to the field, its polarization stays 0 - so its roots do not matter; the
                # Jury conditions are still proved for it where its resonance happens to be resolved
                j = i if variant != "tensor" else (0, 4 * ax)
                c.prove(f"axis{ax}/inactive_axis_is_inert(c3==c4==0)", A._vand(A.v_eq(c3[j], 0), A.v_eq(c4[j], 0)))
                _stability(c, f"axis{ax}", c1[i], c2[i], extra_hyps=[P.axis_resolved(ax)])
            else:
                _stability(c, f"axis{ax}", c1[i], c2[i])
        # inverse mapping
        if variant == "scalar":
            _split_inactive([(c1[0], c3[0], c4[0])])
        elif variant == "per_axis":
            _split_inactive([(c1[0, a], c3[0, a], c4[0, a]) for a in range(3)])
        else:
            _split_inactive([(c1[0, a], c3[0, 4 * a], c4[0, 4 * a]) for a in range(3)])
        chi = D.susceptibility_from_coefficients(c1, c2, c3, om, dt, c4)
        model = D.DispersionModel(poles=(P.pole,))
        own = model.susceptibility_axes(om)
        if variant == "tensor":
            c.prove("chi_shape", chi.shape == (9,))
            for j in range(3):
                for k in range(3):
                    if j == k:
                        prove_rational_equal(c, f"chi_from_coefficients[{j},{j}]==declared", chi.at_index((4 * j,)), P.chi(j, om), relations=P.relations, nonzero_terms=P.den_nz(j, om))
                    else:
                        # entry (j,k) runs on the oscillator of row j: finite wherever that row's model is
                        prove_rational_equal(c, f"chi_from_coefficients[{j},{k}]==0", chi.at_index((3 * j + k,)), 0, relations=P.relations, nonzero_terms=P.den_nz(j, om))
        for ax in range(n_ax):
            nzt = P.den_nz(ax, om)
            want = P.chi(ax, om)
            if variant != "tensor":
                got = chi.at_index(()) if variant == "scalar" else chi.at_index((ax,))
                prove_rational_equal(c, f"chi_from_coefficients[{ax}]==declared", got, want, relations=P.relations, nonzero_terms=nzt)
            prove_rational_equal(c, f"DispersionModel.susceptibility_axes[{ax}]==declared", own[ax], want, relations=P.relations, nonzero_terms=nzt)

    return body


def _oriented(kind, pattern):
    """pattern: which components of the orientation vector are literally 0 ('0') or symbolic non-zero ('s')"""

    def body(c, inp):
        import fdtdx.dispersion as D

        dt, om = _common(c, inp)
        u = []
        for a, ch in zip("xyz", pattern):
            if ch == "s":
                v = sym_real(f"u{a}")
                c.assume(A._tobool(v != 0))
                inp.scalar(f"u{a}", v)
            else:
                v = 0.0
            u.append(v)
        u = tuple(u)
        P = _KINDS[kind](c, inp, dt, classes={"lorentz": "AAA", "drude": "AAA", "ccpr": "LLL"}[kind], uniform=True, orientation=u)
        inp.note("case", dict(kind=kind, variant="oriented", pattern=pattern))
        c.cover("pre")
        c1, c2, c3, c4 = D.compute_pole_coefficients_tensor((P.pole,), dt)
        c.prove("shapes", tuple(x.shape for x in (c1, c2, c3, c4)) == ((1, 3), (1, 3), (1, 9), (1, 9)))
        c.prove("c4_is_zero", all(A.v_eq(v, 0) is True for v in c4.ravel()))
        _stability(c, "axis0", c1[0, 0], c2[0, 0])
        c.prove("recurrence_coefficients_uniform_over_axes", all(_tid(c1[0, a]) == _tid(c1[0, 0]) and _tid(c2[0, a]) == _tid(c2[0, 0]) for a in range(3)))
        # the mask of entry (j,k) is (c1_j != 0) | (c3_jk != 0): decide it on this path
        _split_inactive([(c1[0, j], c3[0, 3 * j + k], c4[0, 3 * j + k]) for j in range(3) for k in range(3)])
        chi = D.susceptibility_from_coefficients(c1, c2, c3, om, dt, c4)
        c.prove("chi_shape", chi.shape == (9,))
        own = D.DispersionModel(poles=(P.pole,)).susceptibility_tensor(om)
        nzt = P.den_nz(0, om)
        want = P.chi(0, om)
        for j in range(3):
            for k in range(3):
                prove_rational_equal(c, f"chi_from_coefficients[{j},{k}]==chi_p*u{j}*u{k}", chi.at_index((3 * j + k,)), want * u[j] * u[k], relations=P.relations, nonzero_terms=nzt)
                prove_rational_equal(c, f"DispersionModel.susceptibility_tensor[{j},{k}]==chi_p*u{j}*u{k}", own[j, k], want * u[j] * u[k], relations=P.relations, nonzero_terms=nzt)

    return body


def _oriented_negative_coupling(c, inp):
    """defined behaviour: an oriented pole with K < 0 is rejected with ValueError"""
    import fdtdx.dispersion as D

    dt, om = _common(c, inp)
    u = tuple(sym_real(f"u{a}") for a in "xyz")
    w0 = sym_real("w0", lo_strict=0)
    g = sym_real("gamma", lo=0)
    de = sym_real("deps")
    c.assume((w0 * dt < 2).z)
    c.assume((de != 0).z)
    pole = D.LorentzPole(resonance_frequency=w0, damping=g, delta_epsilon=de).aset("orientation", u)
    c.cover("pre")
    had = SymNum.__dict__.get("__format__")
    SymNum.__format__ = lambda self, spec: repr(self)  # the error message formats K with ':.4g'
    try:
        D.compute_pole_coefficients_tensor((pole,), dt)
        c.prove("accepted_only_if_K>=0", de >= 0)
    except ValueError as e:
        c.prove("rejected_only_if_K<0", A._vand("negative coupling" in str(e), de < 0))
    finally:
        if had is None:
            del SymNum.__format__
        else:
            SymNum.__format__ = had


def _sum_of_poles(variant):
    """two poles (Lorentz + Drude, per-axis): the reconstruction is the SUM of the declared terms"""

    def body(c, inp):
        import fdtdx.dispersion as D

        dt, om = _common(c, inp)
        P1 = _lorentz(c, inp, dt, tag="p1_")
        P2 = _drude(c, inp, dt, tag="p2_") if variant == "lorentz+drude" else _ccpr(c, inp, dt, tag="p2_", classes="LGL")
        c.cover("pre")
        c1, c2, c3, c4 = D.compute_pole_coefficients_per_axis((P1.pole, P2.pole), dt)
        c.prove("shapes", tuple(x.shape for x in (c1, c2, c3, c4)) == ((2, 3),) * 4)
        chi = D.susceptibility_from_coefficients(c1, c2, c3, om, dt, c4)
        own = D.DispersionModel(poles=(P1.pole, P2.pole)).susceptibility_axes(om)
        for ax in range(3):
            nzt = P1.den_nz(ax, om) + P2.den_nz(ax, om)
            want = P1.chi(ax, om) + P2.chi(ax, om)
            prove_rational_equal(c, f"chi_from_coefficients[{ax}]==sum_declared", chi.at_index((ax,)), want, relations=P1.relations + P2.relations, nonzero_terms=nzt)
            prove_rational_equal(c, f"DispersionModel.susceptibility_axes[{ax}]==sum_declared", own[ax], want, relations=P1.relations + P2.relations, nonzero_terms=nzt)

    return body


def _zero_padding(num_components, coupling_components):
    """compute_allowed_dispersive_coefficients: materials with fewer poles than max_num_poles and
    non-dispersive materials get zero slots, and zero slots contribute exactly 0"""

    def body(c, inp):
        import fdtdx
        import fdtdx.dispersion as D
        import fdtdx.materials as M

        dt, om = _common(c, inp)
        uniform = num_components == 1
        orient = None
        if coupling_components == 9:
            orient = tuple(sym_real(f"u{a}") for a in "xyz")
            for v in orient:
                c.assume(A._tobool(v != 0))
        P1 = _lorentz(c, inp, dt, tag="p1_", uniform=uniform or orient is not None, orientation=orient)
        P2 = _drude(c, inp, dt, tag="p2_", uniform=uniform)
        P3 = _lorentz(c, inp, dt, tag="p3_", uniform=uniform)
        mats = {
            "plain": fdtdx.Material(permittivity=2.0),
            "one_pole": fdtdx.Material(permittivity=3.0, dispersion=D.DispersionModel(poles=(P1.pole,))),
            "two_poles": fdtdx.Material(permittivity=1.0, dispersion=D.DispersionModel(poles=(P2.pole, P3.pole))),
            "empty_model": fdtdx.Material(permittivity=4.0, dispersion=D.DispersionModel(poles=())),
        }
        poles_of = {"plain": [], "one_pole": [P1], "two_poles": [P2, P3], "empty_model": []}
        order = M.compute_ordered_names(mats)
        c.prove("material_order", order == ["two_poles", "plain", "one_pole", "empty_model"])
        c.cover("pre")
        max_poles = 3  # one more than any material has: every material carries at least one padded slot
        c1, c2, c3, c4 = M.compute_allowed_dispersive_coefficients(mats, dt, max_poles, num_components, coupling_components)
        c.prove("shapes", tuple(x.shape for x in (c1, c2, c3, c4)) == ((4, max_poles, num_components),) * 2 + ((4, max_poles, coupling_components),) * 2)
        for m_idx, name in enumerate(order):
            ps = poles_of[name]
            for slot in range(len(ps), max_poles):
                ok = all(A.v_eq(v, 0) is True for arr in (c1, c2, c3, c4) for v in arr[m_idx, slot].ravel())
                c.prove(f"{name}/slot{slot}_is_zero", ok)
            for p_i in range(len(ps)):
                for comp in range(coupling_components):
                    row = comp // 3 if coupling_components == 9 else comp
                    _split_inactive([(c1[m_idx, p_i, min(row, num_components - 1)], c3[m_idx, p_i, comp], c4[m_idx, p_i, comp])])
            chi = D.susceptibility_from_coefficients(c1[m_idx], c2[m_idx], c3[m_idx], om, dt, c4[m_idx])
            c.prove(f"{name}/chi_shape", chi.shape == (coupling_components,))
            for comp in range(coupling_components):
                if coupling_components == 9:
                    j, k = divmod(comp, 3)
                else:
                    j = k = comp
                want = 0
                nzt = []
                for P in ps:
                    oriented = P.pole.is_oriented
                    if oriented:
                        want = want + P.chi(0, om) * orient[j] * orient[k]
                        nzt += P.den_nz(0, om)
                    else:
                        want = want + (P.chi(j, om) if j == k else 0)
                        nzt += P.den_nz(j, om)
                prove_rational_equal(c, f"{name}/chi[{comp}]==sum_of_own_poles", chi.at_index((comp,)), want, relations=[r for P in ps for r in P.relations], nonzero_terms=nzt)

    return body


# ---------------------------------------------------------------------------------------
# task table
# ---------------------------------------------------------------------------------------


# every task of the unchanged tree has <= 8 decision paths (class forks); a code change that makes the
# activity / mask decisions explode is reported (refutations found so far + undecided) instead of looping
MAX_PATHS = 32

_LETTERS = {"lorentz": "AI", "drude": "AI", "ccpr": "GLI", "critical_point": "GLI"}


def _class_sets(kind, tier):
    letters = _LETTERS[kind]
    if kind == "critical_point":
        return [x * 3 for x in letters]
    full = ["".join(t) for t in itertools.product(letters, repeat=3)]
    if tier == "thorough":
        return full
    if letters == "AI":
        return ["AAA", "IAA", "AIA", "AAI", "III"]
    # every axis takes every class once (G forks on a != 0, so only one G per quick task)
    return ["GLI", "IGL", "LIG", "LLL"]


def tasks(tier, seed):
    out = {}
    for kind in ("lorentz", "drude", "ccpr", "critical_point"):
        sets = _class_sets(kind, tier)
        for cls in sets:
            out[f"per_axis/{kind}/{cls}"] = Task(_per_axis(kind, cls, "per_axis"), extra_patch=_PATCH, max_paths=MAX_PATHS)
            if kind != "critical_point" and (tier == "thorough" or cls in sets[:2]):
                out[f"tensor/{kind}/{cls}"] = Task(_per_axis(kind, cls, "tensor"), extra_patch=_PATCH, max_paths=MAX_PATHS)
        for x in _LETTERS[kind]:
            out[f"scalar/{kind}/{x * 3}"] = Task(_per_axis(kind, x * 3, "scalar"), extra_patch=_PATCH, max_paths=MAX_PATHS)
    patterns = ["sss", "s0s", "00s"] if tier == "quick" else ["sss", "ss0", "s0s", "0ss", "s00", "0s0", "00s"]
    for kind in ("lorentz", "drude", "ccpr"):
        for pat in patterns if kind == "lorentz" or tier == "thorough" else patterns[:1]:
            out[f"oriented/{kind}/{pat}"] = Task(_oriented(kind, pat), extra_patch=_PATCH, max_paths=MAX_PATHS)
    out["jury_theorem"] = Task(_jury_theorem)
    out["oriented/negative_coupling_rejected"] = Task(_oriented_negative_coupling, extra_patch=_PATCH, max_paths=MAX_PATHS)
    out["sum/lorentz+drude"] = Task(_sum_of_poles("lorentz+drude"), extra_patch=_PATCH, max_paths=MAX_PATHS)
    out["sum/lorentz+ccpr"] = Task(_sum_of_poles("lorentz+ccpr"), extra_patch=_PATCH, max_paths=MAX_PATHS)
    for nc, cc in ((1, 1), (3, 3), (3, 9)):
        out[f"zero_padding/components{nc}_{cc}"] = Task(_zero_padding(nc, cc), extra_patch=_PATCH, max_paths=MAX_PATHS)
    return out


# ---------------------------------------------------------------------------------------
# replay on the real code (real numpy / JAX, float64)
# ---------------------------------------------------------------------------------------


def replay(key, obligation, witness):
    import cmath

    import numpy as np

    import fdtdx.dispersion as D

    sc = (witness or {}).get("scalars", {})
    case = (witness or {}).get("notes", {}).get("case", {})
    kind = case.get("kind") or (key.split("/")[1] if "/" in key else "lorentz")
    variant = case.get("variant", key.split("/")[0])
    if kind not in _KINDS:
        kind = "lorentz"

    def val(name, default):
        v = sc.get(name, default)
        return float(v) if isinstance(v, (int, float)) else default

    dt, om = val("dt", 0.5), val("omega", 0.7)
    details = []
    if kind == "lorentz" and ("gate:" in obligation or "jury:" in obligation):
        # acceptance gate on the real code: one ACTIVE axis unresolved (omega_0 dt = 2.5) must be rejected by every
        # coefficient function; whatever is accepted must have its recurrence roots in the closed unit disk
        for fname in ("compute_pole_coefficients_per_axis", "compute_pole_coefficients_tensor"):
            for bad_ax in range(3):
                w0 = [0.3 / 0.5] * 3
                w0[bad_ax] = 2.5 / 0.5
                pole = D.LorentzPole(resonance_frequency=tuple(w0), damping=(0.02, 0.02, 0.02), delta_epsilon=(0.5, 0.5, 0.5))
                try:
                    c1, c2, _c3, _c4 = getattr(D, fname)((pole,), 0.5)
                except ValueError:
                    details.append(f"{fname}: omega_0*dt = 2.5 on active axis {bad_ax}: rejected (documented)")
                    continue
                roots = np.roots([1.0, -c1[0, bad_ax], -c2[0, bad_ax]])
                r = float(np.max(np.abs(roots)))
                details.append(f"{fname}: omega_0*dt = 2.5 on active axis {bad_ax}: ACCEPTED, c1={c1[0, bad_ax]:.4g}, max|root|={r:.6f}")
                if r > 1 + 1e-9:
                    return True, "the real code accepts a passive pole whose recurrence has a root outside the unit circle:\n" + "\n".join(details)
    for attempt in range(6):
        rng = np.random.default_rng(attempt)
        if attempt:
            dt, om = float(rng.uniform(0.05, 1.0)), float(rng.uniform(0.1, 3.0))
        pre = "" if variant not in ("sum", "zero_padding") else "p1_"

        def ax(name, default):
            return tuple(val(f"{pre}{name}{a}", default) if attempt == 0 else float(rng.uniform(0.1, 1.5)) for a in range(3))

        if kind == "lorentz":
            w0, g, de = ax("w0", 1.0), ax("gamma", 0.2), ax("deps", 1.5)
            w0 = tuple(min(abs(w), 1.9 / dt) for w in w0)
            g = tuple(abs(x) for x in g)
            pole = D.LorentzPole(resonance_frequency=w0, damping=g, delta_epsilon=de)
            decl = [de[a] * w0[a] ** 2 / (w0[a] ** 2 - om**2 - 1j * g[a] * om) for a in range(3)]
        elif kind == "drude":
            wp, g = ax("wp", 1.0), tuple(abs(x) for x in ax("gamma", 0.2))
            pole = D.DrudePole(plasma_frequency=wp, damping=g)
            decl = [-wp[a] ** 2 / (om**2 + 1j * g[a] * om) for a in range(3)]
        elif kind == "ccpr":
            qr, qi, rr, ri = ax("qre", -0.3), ax("qim", -1.0), ax("rre", 0.4), ax("rim", 0.8)
            q = tuple(complex(-abs(a), b) for a, b in zip(qr, qi))
            q = tuple(z if abs(z) * dt < 1.9 else z * (1.9 / (abs(z) * dt)) for z in q)
            r = tuple(complex(a, b) for a, b in zip(rr, ri))
            pole = D.CCPRPole(pole=q, residue=r)
            decl = [r[a] / (-1j * om - q[a]) + r[a].conjugate() / (-1j * om - q[a].conjugate()) for a in range(3)]
        else:
            amp, phi = val("amplitude", 1.2), val("phase", 0.4)
            W, G = abs(val("Omega", 1.0)), abs(val("Gamma", 0.2))
            if attempt:
                amp, phi, W, G = (float(x) for x in rng.uniform(0.1, 1.5, size=4))
            if (W * W + G * G) ** 0.5 * dt >= 1.9:
                dt = 1.9 / (W * W + G * G) ** 0.5
            pole = D.CCPRPole.from_critical_point(amp, phi, W, G)
            d = amp * W * (cmath.exp(1j * phi) / (W - om - 1j * G) + cmath.exp(-1j * phi) / (W + om + 1j * G))
            decl = [d, d, d]
        try:
            c1, c2, c3, c4 = D.compute_pole_coefficients_per_axis((pole,), dt)
        except Exception as e:  # noqa: BLE001
            details.append(f"attempt {attempt}: {type(e).__name__}: {e}")
            continue
        chi = np.asarray(D.susceptibility_from_coefficients(c1, c2, c3, om, dt, c4))
        own = D.DispersionModel(poles=(pole,)).susceptibility_axes(om)
        err = max(abs(chi[a] - decl[a]) / max(1.0, abs(decl[a])) for a in range(3))
        err_own = max(abs(own[a] - decl[a]) / max(1.0, abs(decl[a])) for a in range(3))
        worst_root = 0.0
        for a in range(3):
            roots = np.roots([1.0, -c1[0, a], -c2[0, a]])
            worst_root = max(worst_root, float(np.max(np.abs(roots))))
        # tensor variant and the per-material (zero padded) coefficient table
        t1, t2, t3, t4 = D.compute_pole_coefficients_tensor((pole,), dt)
        chi9 = np.asarray(D.susceptibility_from_coefficients(t1, t2, t3, om, dt, t4))
        err_t = max(abs(chi9[3 * j + k] - (decl[j] if j == k else 0.0)) / max(1.0, abs(decl[j])) for j in range(3) for k in range(3))
        import fdtdx
        import fdtdx.materials as M

        mats = {"plain": fdtdx.Material(permittivity=2.0), "disp": fdtdx.Material(permittivity=3.0, dispersion=D.DispersionModel(poles=(pole,)))}
        a1, a2, a3, a4 = M.compute_allowed_dispersive_coefficients(mats, dt, 2, 3, 3)
        err_pad = 0.0
        for m_idx, want_chi in ((0, [0.0, 0.0, 0.0]), (1, decl)):
            chi_m = np.asarray(D.susceptibility_from_coefficients(a1[m_idx], a2[m_idx], a3[m_idx], om, dt, a4[m_idx]))
            err_pad = max(err_pad, max(abs(chi_m[a] - want_chi[a]) / max(1.0, abs(want_chi[a])) for a in range(3)))
        err = max(err, err_t, err_pad)
        details.append(f"attempt {attempt}: kind={kind} dt={dt:.4g} omega={om:.4g}: |chi_from_coefficients-declared|={err:.3e} (tensor variant {err_t:.3e}, material table {err_pad:.3e}), |model.susceptibility_axes-declared|={err_own:.3e}, max|root|={worst_root:.12f}")
        if err > 1e-8 or err_own > 1e-8 or worst_root > 1 + 1e-9:
            return True, "real code deviates from the declared pole model:\n" + "\n".join(details)
    return False, "\n".join(details)
