"""C07  Stopping conditions stop exactly where documented.

Contracts.  kappa(state) is the continue predicate `condition.setup(..)(state, config, objects)`.

  for every condition class (after setup; T = config.time_steps_total; NO ordering of min_steps and
  max_steps is assumed - where min_steps > max_steps, e.g. a user max_steps below the default minimum,
  the maximum is the documented hard cut-off and "never before its minimum" binds only below it):
     for step counters t < T (beyond T the loop bound has already stopped the run):
     (a)  kappa  ==>  t < condition.max_steps                          "never later than its maximum"
     (b)  t < min_steps /\\ t < max_steps  ==>  kappa                   "never before its minimum"
     (c)  kappa  <=>  t < max_steps /\\ (t < min_steps \\/ not converged)   the documented formula, with
          `converged` = energy < threshold (energy: uninterpreted value of the state) resp. the value the
          spectral test returned (FFT uninterpreted)
  TimeStepCondition:  kappa <=> t < T.
  run_fdtd(stopping_condition=C)  hands the loop primitive  cond_fun = C.setup(state0, config, objects)
     with the run's config/objects, max_steps = T, the carry (0, reset(arrays)) and the SAME body as a plain
     run; its result is the loop's final carry.  By the (assumed) contract of the primitive the run therefore
     halts at the FIRST step at which kappa is false, after at most T steps, in the state forward^n(reset).
  end to end (real condition inside the loop rule):  final step <= max_steps,  <= T,  >= min(min_steps, max_steps, T).

KNOWN outcome on the unchanged tree: (a), (c) and the end-to-end bound FAIL for DetectorConvergenceCondition
(its __call__ never reads self.max_steps) -- a genuine defect, reproduced by replay() on the real code.
"""

from __future__ import annotations

import types
from fractions import Fraction

from props import C05 as P5
from spec import C05_timeloop as TL
from vc import array as A
from vc import scene
from vc.core import SymBool, ctx, sym_min, v_eq, zbool
from vc.harness import Task
from vc.obl import sym_int, sym_real

ID = "C07"
LEVEL = "proof"
TECHNIQUE = "symbolic execution of the real setup/__call__ of the three stopping conditions (symbolic step, bounds, threshold, traces); while rule with an assumed contract for equinox.internal.while_loop on the real loop pieces of run_fdtd(stopping_condition=...); z3"
MODULES = P5.MODULES
FILES = ["src/fdtdx/fdtd/stop_conditions.py", "src/fdtdx/fdtd/fdtd.py", "src/fdtdx/fdtd/wrapper.py"]
FUNCTIONS = [
    "fdtdx.fdtd.stop_conditions.TimeStepCondition.setup/__call__",
    "fdtdx.fdtd.stop_conditions.EnergyThresholdCondition.setup/_validate/__call__",
    "fdtdx.fdtd.stop_conditions.DetectorConvergenceCondition.setup/_validate/__call__",
    "fdtdx.fdtd.fdtd.checkpointed_fdtd (stopping-condition set-up, loop bound, guard, body)",
    "fdtdx.fdtd.wrapper.run_fdtd (stopping_condition dispatch)",
]
INLINED = P5.INLINED
STUBS = P5.STUBS + [
    "core.physics.metrics.compute_energy: the total energy of a state is an arbitrary real >= 0",
    "jnp.fft.rfft: arbitrary complex spectrum of the documented length (so `converged` is an arbitrary boolean of the trace)",
]
ASSUMPTIONS = [
    "DetectorConvergenceCondition: samples-per-period and prev_periods enumerated (spp in {1,2,3,5}, prev_periods in {1,2,4}); step counts, bounds, threshold, detector trace symbolic",
    "the loop primitive stops at the first step at which its cond_fun is false (assumed contract, see STUBS)",
]
MIN_OBLIGATIONS = {"quick": 250, "thorough": 300}
LEVEL_TEXT = (
    "Deductive proof for all step counters, total step counts, min/max settings, thresholds and traces of the continue-predicate contracts (a)-(c) of the real "
    "TimeStepCondition / EnergyThresholdCondition / DetectorConvergenceCondition, and of the loop wiring of run_fdtd(stopping_condition=...) (guard = the set-up condition, "
    "bound = T, same body and reset start state as a plain run) under the documented contract of the loop primitive"
)
LEVEL_NOTE = "energy functional and FFT abstracted (uninterpreted); loop primitive by assumed contract"
EXPLANATION = "DetectorConvergenceCondition.__call__ ignores max_steps: obligations kappa/Detector*/(a),(c) and run/Detector*/final_step<=max_steps are refuted on the unchanged tree (genuine defect, see replay)"


# ---------------------------------------------------------------------------------------


from vc.core import PathAbort, Undecided  # noqa: E402

_ENGINE_EXC = (TL.Unsupported, PathAbort, Undecided)


class _JnpPlus(types.ModuleType):
    """the symbolic jnp shim plus an uninterpreted rfft"""

    def __init__(self, base):
        super().__init__("symjnp+fft")
        self.__dict__["_base"] = base
        self.__dict__["fft"] = types.SimpleNamespace(rfft=self._rfft)
        self.__dict__["n_rfft"] = 0

    def __getattr__(self, name):
        return getattr(self.__dict__["_base"], name)

    def _rfft(self, x, n=None, **kw):
        x = A.asarray(x)
        m = n if n is not None else x.shape[-1]
        self.__dict__["n_rfft"] += 1
        return A.fresh_array(f"rfft{self.__dict__['n_rfft']}", (*x.shape[:-1], m // 2 + 1), "complex")


class _cond_env:
    """stop_conditions module: compute_energy -> arbitrary energy >= 0 of the state; jnp.fft -> uninterpreted;
    lax.cond results recorded (the `converged` flag of the detector condition)"""

    def __enter__(self):
        import fdtdx.fdtd.stop_conditions as SC

        self.SC = SC
        self.energies = []
        self.cond_results = []
        self.tests = []
        d = SC.__dict__
        self.saved = {k: d[k] for k in ("compute_energy", "jnp", "jax")}

        def compute_energy(E, H, inv_eps, inv_mu, axis=0):
            e = sym_real(f"energy{len(self.energies)}", lo=0)
            self.energies.append(e)
            return A.asarray(e)

        base_jax = d["jax"]
        env = self

        class JaxRec(types.ModuleType):
            def __getattr__(self, name):
                return getattr(base_jax, name)

        jr = JaxRec("symjax+condlog")

        def cond(pred, tf, ff, *ops, **kw):
            if "operand" in kw:  # legacy keyword form of jax.lax.cond: the branches receive it positionally
                ops = (kw.pop("operand"),)
            # the convergence test itself (true branch), evaluated once and independently of the gate,
            # is what the documentation calls "converged"; the gated value is what the code uses
            test = tf(*ops)
            env.tests.append(test)
            r = base_jax.lax.cond(pred, lambda *a: test, ff, *ops, **kw)
            env.cond_results.append(r)
            return r

        jr.__dict__["lax"] = types.SimpleNamespace(cond=cond, dynamic_slice=base_jax.lax.dynamic_slice)
        d["compute_energy"] = compute_energy
        d["jnp"] = _JnpPlus(d["jnp"])
        d["jax"] = jr
        return self

    def __exit__(self, *exc):
        self.SC.__dict__.update(self.saved)
        return False


def _generic_state(inp, T, tag="s", A0=None, shape=None):
    if A0 is None:
        shape, A0 = P5.make_scene(inp, with_pml=False, T=T)
    t = sym_int(f"t_{tag}", lo=0)
    return shape, A0, t, (A.asarray(t), A0)


def _concrete_cfg(spp_target):
    """REAL SimulationConfig with a concrete time step; wave period chosen so that spp == spp_target"""
    from fdtdx.config import SimulationConfig
    from fdtdx.core.grid import UniformGrid
    from fdtdx.core.wavelength import WaveCharacter

    cfg = SimulationConfig(time=1e-12, grid=UniformGrid(spacing=1e-7), backend="cpu")
    wc = WaveCharacter(period=(spp_target + 0.2) * cfg.time_step_duration)
    return cfg, wc


def _kappa_timestep(c, inp):
    from fdtdx.fdtd.stop_conditions import TimeStepCondition

    T = sym_int("T", lo=0)
    inp.scalar("T", T)
    shape, A0, t, state = _generic_state(inp, T)
    inp.scalar("t", t)
    cfg = P5.make_cfg(None)
    objs = scene.make_objects(shape, cfg)
    with P5.sym_total_steps(T):
        cond = TimeStepCondition().setup((A.asarray(0), A0), cfg, objs)
        k = TL.as_cond(cond(state, cfg, objs))
    c.cover("pre")
    c.prove("TimeStepCondition/(c):kappa<=>t<T", zbool(k) == zbool(t < T))


def _kappa_obligations(c, name, k, t, mn, mx, T, converged):
    """for step counters inside the configured run (t < T; at t >= T the loop bound has stopped the run)"""
    import z3

    k, conv = zbool(k), zbool(converged)
    inside = [zbool(t < T)]
    c.prove(f"{name}/(a):kappa=>t<max_steps", z3.Implies(k, zbool(t < mx)), extra_hyps=inside)
    c.prove(f"{name}/(b):t<min_steps/\\t<max_steps=>kappa", z3.Implies(z3.And(zbool(t < mn), zbool(t < mx)), k), extra_hyps=inside)
    c.prove(f"{name}/(c):kappa<=>t<max/\\(t<min\\/not_converged)", k == z3.And(zbool(t < mx), z3.Or(zbool(t < mn), z3.Not(conv))), extra_hyps=inside)


def _energy_condition(c, inp, T, defaults):
    from fdtdx.fdtd.stop_conditions import EnergyThresholdCondition

    thr = sym_real("threshold")
    inp.scalar("threshold", thr)
    if defaults:
        return EnergyThresholdCondition(threshold=thr), thr, None, None
    mn = sym_int("min_steps")
    mx = sym_int("max_steps")
    inp.scalar("min_steps", mn)
    inp.scalar("max_steps", mx)
    return EnergyThresholdCondition(threshold=thr, min_steps=mn, max_steps=mx), thr, mn, mx


def _kappa_energy(defaults):
    def body(c, inp):
        T = sym_int("T", lo=0)
        inp.scalar("T", T)
        shape, A0, t, state = _generic_state(inp, T)
        inp.scalar("t", t)
        cfg = P5.make_cfg(None)
        objs = scene.make_objects(shape, cfg)
        cond0, thr, mn, mx = _energy_condition(c, inp, T, defaults)
        with P5.sym_total_steps(T), _cond_env() as env:
            try:
                cond = cond0.setup((A.asarray(0), A0), cfg, objs)
            except ValueError:
                bad = (thr <= 0) if mn is None else ((thr <= 0) | (mn < 0))
                c.prove("EnergyThreshold/setup:raises_ValueError_only_for_documented_bad_input", bad)
                return
            c.prove("EnergyThreshold/setup:accepts=>threshold>0", thr > 0)
            c.prove("EnergyThreshold/setup:accepts=>min_steps>=0", cond.min_steps >= 0)
            if defaults:
                c.prove("EnergyThreshold/setup:default_max_steps==T", v_eq(cond.max_steps, T))
                c.prove("EnergyThreshold/setup:default_min_steps==round(0.1*T)", (cond.min_steps - T * Fraction(0.1) <= Fraction(1, 2)) & (T * Fraction(0.1) - cond.min_steps <= Fraction(1, 2)))
            else:
                c.prove("EnergyThreshold/setup:keeps_user_bounds", TL.same_num(cond.max_steps, mx) and TL.same_num(cond.min_steps, mn))
            c.cover("pre")
            k = TL.as_cond(cond(state, cfg, objs))
            ok = c.prove("EnergyThreshold/energy_evaluated_once_on_the_state", len(env.energies) == 1)
            if not ok:
                return
            _kappa_obligations(c, "EnergyThreshold", k, t, cond.min_steps, cond.max_steps, T, env.energies[0] < thr)

    return body


def _detector_condition(inp, T, spp, prev, defaults, with_max=True):
    from fdtdx.fdtd.stop_conditions import DetectorConvergenceCondition

    cfg, wc = _concrete_cfg(spp)
    thr = sym_real("threshold")
    inp.scalar("threshold", thr)
    kw = {}
    mn = mx = None
    if not defaults:
        mn = sym_int("min_steps")
        inp.scalar("min_steps", mn)
        kw["min_steps"] = mn
        if with_max:
            mx = sym_int("max_steps")
            inp.scalar("max_steps", mx)
            kw["max_steps"] = mx
    inp.note("detector_condition", {"spp": spp, "prev_periods": prev, "defaults": defaults})
    return cfg, DetectorConvergenceCondition(detector_name="det", wave_character=wc, prev_periods=prev, threshold=thr, **kw), thr, mn, mx


def _detector_setup(c, cond0, state0, cfg, objs, T, spp, prev, thr, mn):
    """run the real setup; judge a ValueError against the documented input checks"""
    try:
        cond = cond0.setup(state0, cfg, objs)
    except ValueError:
        need = (prev + 1) * spp
        bad = ((T < need) | (thr < 0)) if mn is None else ((T < need) | (thr < 0) | (mn < need))
        c.prove("DetectorConvergence/setup:raises_ValueError_only_for_documented_bad_input", bad)
        return None
    c.prove("DetectorConvergence/setup:spp", cond._spp == spp)
    c.prove("DetectorConvergence/setup:accepts=>enough_steps_and_min>=window", (T >= (prev + 1) * spp) & (cond.min_steps >= (prev + 1) * spp) & (thr >= 0))
    return cond


def _kappa_detector(spp, prev, defaults):
    def body(c, inp):
        T = sym_int("T", lo=0)
        inp.scalar("T", T)
        shape, A0, t, state = _generic_state(inp, T)
        inp.scalar("t", t)
        cfg, cond0, thr, mn, mx = _detector_condition(inp, T, spp, prev, defaults)
        objs = scene.make_objects(shape, cfg)
        with P5.sym_total_steps(T), _cond_env() as env:
            cond = _detector_setup(c, cond0, (A.asarray(0), A0), cfg, objs, T, spp, prev, thr, mn)
            if cond is None:
                return
            if defaults:
                c.prove("DetectorConvergence/setup:default_max_steps==T", v_eq(cond.max_steps, T))
                c.prove("DetectorConvergence/setup:default_min_steps==(prev_periods+1)*spp", v_eq(cond.min_steps, (prev + 1) * spp))
            else:
                c.prove("DetectorConvergence/setup:keeps_user_bounds", TL.same_num(cond.max_steps, mx) and TL.same_num(cond.min_steps, mn))
            c.cover("pre")
            k = TL.as_cond(cond(state, cfg, objs))
            ok = c.prove("DetectorConvergence/one_convergence_test", len(env.tests) == 1)
            if not ok:
                return
            conv = TL.as_cond(env.tests[0])
            _kappa_obligations(c, f"DetectorConvergence(spp={spp},prev={prev},{'defaults' if defaults else 'user_bounds'})", k, t, cond.min_steps, cond.max_steps, T, conv)

    return body


# ---------------------------------------------------------------------------------------
# loop wiring of run_fdtd(stopping_condition=...)
# ---------------------------------------------------------------------------------------


def _recording_condition():
    from fdtdx.core.jax.pytrees import autoinit
    from fdtdx.fdtd.stop_conditions import StoppingCondition

    log = {"setup": [], "call": []}

    @autoinit
    class RecordingCondition(StoppingCondition):
        """a user-defined condition: arbitrary continue predicate of the state"""

        def setup(self, state, config, objects):
            log["setup"].append((self, state, config, objects))
            new = RecordingCondition()
            new.__dict__["_is_setup"] = True
            log["ready"] = new
            return new

        def _validate(self, state, config, objects):
            return None

        def __call__(self, state, config, objects):
            b = SymBool(__import__("z3").Bool(ctx().fresh_name("kappa")))
            log["call"].append((self, state, config, objects, b))
            return A.asarray(b)

    return RecordingCondition(), log


def _loop_wiring(c, inp):
    from fdtdx.config import GradientConfig

    T = sym_int("T", lo=0)
    inp.scalar("T", T)
    shape, A0 = P5.make_scene(inp, T=T)
    cfg = P5.make_cfg(None)
    objs = scene.make_objects(shape, cfg)
    key = P5._key()
    user_cond, log = _recording_condition()
    c.cover("pre")
    with P5.sym_total_steps(T), TL.LoopHarness() as L:
        res_p, calls_p = P5._run(L, A0, objs, cfg, key)
        g_p = P5._post_run(c, "plain_run", res_p, calls_p, A0, T, cfg, objs, key)
        try:
            res, calls = P5._run(L, A0, objs, cfg, key, stopping_condition=user_cond)
        except _ENGINE_EXC:
            raise
        except Exception as e:  # noqa: BLE001
            c.prove(f"stopped_run/no_exception_without_gradient_config({type(e).__name__})", False)
            return
        ok = c.prove("stopped_run/one_loop", len(calls) == 1 and isinstance(res, tuple) and len(res) == 2)
        if not ok or g_p is None:
            return
        rec = calls[0]
        g = TL.ghost_of(res[1])
        ok = c.prove("stopped_run/post:result_is_the_final_loop_carry", isinstance(g, TL.Iter) and g is rec["iter_out"] and TL.same_num(TL.scalar(res[0]), rec["t0"] + rec["n"]))
        if not ok:
            return
        # set-up: exactly once, on the initial carry (0, reset arrays) with the run's config/objects
        su = log["setup"]
        ok = c.prove("stopped_run/setup_called_once_on_user_condition", len(su) == 1 and su[0][0] is user_cond and su[0][2] is cfg and su[0][3] is objs)
        if ok:
            c.prove("stopped_run/setup_sees_initial_carry", TL.same_num(TL.scalar(su[0][1][0]), 0) and su[0][1][1] is g.origin)
        # guard: every evaluation made by the loop rule went to the set-up condition with (state, cfg, objs)
        ev = log["call"]
        states = [s for s in (rec.get("state_end"),)]
        c.prove("stopped_run/guard_is_the_setup_condition(state,config,objects)", len(ev) == 3 and all(e[0] is log.get("ready") and e[2] is cfg and e[3] is objs for e in ev) and ev[2][1] is states[0] and TL.as_cond(ev[2][4]) is rec["cond_end"])
        c.prove("stopped_run/loop_bound_is_T", rec["max_steps"] is not None and TL.same_num(rec["max_steps"], T))
        c.prove("stopped_run/post:first_step_at_counter_0", v_eq(g.t0, 0))
        c.prove("stopped_run/post:never_more_than_T_steps", (g.n <= T) & (TL.scalar(res[0]) <= T))
        c.prove("stopped_run/post:state_is_n_steps_for_n==final_counter", v_eq(g.n, TL.scalar(res[0])))
        TL.prove_is_reset_of("stopped_run/post:starts_from_reset_container", g.origin, A0)
        c.prove("stopped_run==plain_run/same_step_function", TL.same_sig(g.sig, g_p.sig))
        TL.prove_same_container("stopped_run==plain_run/same_start_state", g.origin, g_p.origin)
        # gradient configuration + stopping condition: documented NotImplementedError, nothing runs
        n_before = len(L.calls)
        gcfg = P5.make_cfg(GradientConfig(method="checkpointed", num_checkpoints=3))
        raised = None
        try:
            P5._run(L, A0, objs, gcfg, key, stopping_condition=user_cond)
        except _ENGINE_EXC:
            raise
        except Exception as e:  # noqa: BLE001
            raised = e
        c.prove("stopped_run/with_gradient_config:NotImplementedError_and_no_loop", isinstance(raised, NotImplementedError) and len(L.calls) == n_before)


def _end_to_end(kind, spp=2, prev=1, defaults=False):
    """real condition object inside the loop rule: bounds on the final step counter"""

    def body(c, inp):
        import z3

        T = sym_int("T", lo=0)
        inp.scalar("T", T)
        shape, A0 = P5.make_scene(inp, with_pml=False, T=T)
        key = P5._key()
        if kind == "energy":
            cfg = P5.make_cfg(None)
            cond0, thr, mn, mx = _energy_condition(c, inp, T, defaults)
        else:
            cfg, cond0, thr, mn, mx = _detector_condition(inp, T, spp, prev, defaults)
        objs = scene.make_objects(shape, cfg)
        name = "EnergyThreshold" if kind == "energy" else f"DetectorConvergence(spp={spp},prev={prev})"
        with P5.sym_total_steps(T), _cond_env(), TL.LoopHarness() as L:
            c.cover("pre")
            try:
                res, calls = P5._run(L, A0, objs, cfg, key, stopping_condition=cond0)
            except ValueError:
                return  # rejected input: judged in the kappa tasks
            except _ENGINE_EXC:
                raise
            except Exception as e:  # noqa: BLE001
                c.prove(f"run/{name}/no_exception({type(e).__name__})", False)
                return
        ok = c.prove(f"run/{name}/one_loop", len(calls) == 1)
        if not ok:
            return
        # the condition object the run itself set up and handed to the loop
        ready = getattr(calls[0]["cond_fun"], "func", None)
        ok = c.prove(f"run/{name}/guard_is_the_setup_condition", type(ready) is type(cond0) and ready.max_steps is not None and ready.min_steps is not None)
        if not ok:
            return
        if defaults:
            c.prove(f"run/{name}/min_steps<=max_steps(after_setup,defaults)", ready.min_steps <= ready.max_steps)
        tf = TL.scalar(res[0])
        n = calls[0]["n"]
        inp.scalar("final_step", tf)
        inp.scalar("min_steps_effective", ready.min_steps)
        inp.scalar("max_steps_effective", ready.max_steps)
        c.prove(f"run/{name}/final_step<=T", tf <= T)
        c.prove(f"run/{name}/final_step<=max_steps", z3.Or(zbool(tf <= ready.max_steps), zbool(n <= 0)))
        lo = sym_min(sym_min(ready.min_steps, ready.max_steps), T)
        c.prove(f"run/{name}/final_step>=min(min_steps,max_steps,T)", tf >= lo)

    return body


# ---------------------------------------------------------------------------------------


def tasks(tier, seed):
    out = {
        "kappa/TimeStepCondition": Task(_kappa_timestep),
        "kappa/EnergyThreshold/defaults": Task(_kappa_energy(True)),
        "kappa/EnergyThreshold/user_bounds": Task(_kappa_energy(False)),
        "loop/wiring": Task(_loop_wiring),
        "run/EnergyThreshold/user_bounds": Task(_end_to_end("energy")),
        "run/EnergyThreshold/defaults": Task(_end_to_end("energy", defaults=True)),
        "run/DetectorConvergence/user_bounds": Task(_end_to_end("detector", 2, 1)),
        "run/DetectorConvergence/defaults": Task(_end_to_end("detector", 2, 1, defaults=True)),
    }
    combos = [(1, 1), (2, 1), (3, 2), (5, 4)] if tier == "quick" else [(s, p) for s in (1, 2, 3, 5) for p in (1, 2, 4)]
    for spp, prev in combos:
        out[f"kappa/DetectorConvergence/spp{spp}_prev{prev}/user_bounds"] = Task(_kappa_detector(spp, prev, False))
    out["kappa/DetectorConvergence/spp2_prev1/defaults"] = Task(_kappa_detector(2, 1, True))
    return out


# ---------------------------------------------------------------------------------------
# replay on the real code under real JAX
# ---------------------------------------------------------------------------------------


_SCENE_CACHE = {}
_RUN_CACHE = {}


def _real_run(cond_factory, T=40, cache_key=None):
    """float32 / 32-bit integers (the package default): under jax_enable_x64 the detector condition's
    dynamic_slice start indices mix int32 and int64 and JAX rejects them"""
    import jax.numpy as jnp

    import fdtdx

    if cache_key is not None and cache_key in _RUN_CACHE:
        return _RUN_CACHE[cache_key]
    if T not in _SCENE_CACHE:
        _SCENE_CACHE[T] = P5._real_scene(T, None, dirty=False, dtype=jnp.float32)
    cfg, oc, arrays, key = _SCENE_CACHE[T]
    cond = cond_factory(cfg)
    t, arr = fdtdx.run_fdtd(arrays, oc, cfg, key, stopping_condition=cond, show_progress=False)
    out = (int(t), arr, cfg, oc, arrays, key)
    if cache_key is not None:
        _RUN_CACHE[cache_key] = out
    return out


def replay(key, obligation, witness):
    """real run_fdtd(stopping_condition=...) on a small periodic dipole scene with an EnergyDetector;
    compares the step at which the real run halts with max_steps / min_steps / T and its state with a
    plain partial run of the same number of steps"""
    import fdtdx
    import fdtdx.fdtd.fdtd as F
    from fdtdx.core.wavelength import WaveCharacter
    from fdtdx.fdtd.stop_conditions import DetectorConvergenceCondition, EnergyThresholdCondition

    import jax

    with jax.enable_x64(False):
        return _replay(key, obligation, witness)


def _replay(key, obligation, witness):
    import fdtdx.fdtd.fdtd as F
    from fdtdx.core.wavelength import WaveCharacter
    from fdtdx.fdtd.stop_conditions import DetectorConvergenceCondition, EnergyThresholdCondition

    sc = (witness or {}).get("scalars", {})
    T = 40
    details = []
    bad = False
    if "Detector" in key or "Detector" in obligation:
        note = (witness or {}).get("notes", {}).get("detector_condition", {}) or {}
        spp, prev = int(note.get("spp", 2)), int(note.get("prev_periods", 1))
        need = (prev + 1) * spp
        trials = []
        mxw, mnw = sc.get("max_steps", sc.get("max_steps_effective")), sc.get("min_steps", sc.get("min_steps_effective"))
        if isinstance(mxw, int) and isinstance(mnw, int) and need <= mnw < T and 0 <= mxw < T:
            trials.append((mnw, mxw))
        trials += [(need, need + 1), (need + 2, need + 5), (need + 4, need + 1)]
        for mn, mx in trials:

            def fac(cfg, mn=mn, mx=mx):
                # threshold 0: `distance < 0` is never true, the trace never counts as converged
                return DetectorConvergenceCondition(detector_name="energy", wave_character=WaveCharacter(period=(spp + 0.2) * cfg.time_step_duration), prev_periods=prev, threshold=0.0, min_steps=mn, max_steps=mx)

            t, arr, cfg, oc, arrays, k = _real_run(fac, T, cache_key=("det", spp, prev, mn, mx))
            details.append(f"DetectorConvergenceCondition(spp={spp}, prev_periods={prev}, threshold=0, min_steps={mn}, max_steps={mx}), time_steps_total={cfg.time_steps_total}: real run halted at step {t}")
            if t > mx:
                bad = True
                details.append(f"  -> later than max_steps={mx} (the documented hard cut-off)")
                break
    else:
        mxw, mnw = sc.get("max_steps", 7), sc.get("min_steps", 3)
        if not (isinstance(mxw, int) and isinstance(mnw, int) and 0 <= mnw <= T and 0 <= mxw <= T):
            mnw, mxw = 3, 7
        for thr, mn, mx in ((1e30, mnw, mxw), (1e-300, mnw, mxw), (1e30, 9, 5), (1e-300, 9, 5)):
            t, arr, cfg, oc, arrays, k = _real_run(lambda cfg: EnergyThresholdCondition(threshold=thr, min_steps=mn, max_steps=mx), T)
            exp = min(mn, mx) if thr > 1 else mx
            tp, sp = F.custom_fdtd_forward(arrays, oc, cfg, k, reset_container=True, record_detectors=True, start_time=0, end_time=t, show_progress=False)
            d = max(P5._rel(arr.fields.E, sp.fields.E), P5._rel(arr.fields.H, sp.fields.H), P5._rel(arr.detector_states["energy"]["energy"], sp.detector_states["energy"]["energy"]))
            details.append(f"EnergyThresholdCondition(threshold={thr}, min_steps={mn}, max_steps={mx}), T={cfg.time_steps_total}: halted at {t} (contract: {exp}); rel. diff to a plain run of {t} steps {d:.2e}")
            bad |= t != exp or d > 1e-5
    return bad, "\n".join(details)
