"""C39  Material descriptions are normalised and classified consistently.

Contracts (REAL functions of fdtdx.materials on symbolic floats)

  _normalize_material_property(v)
      ensures  scalar s -> (s,0,0, 0,s,0, 0,0,s);  (a,b,c) -> (a,0,0, 0,b,0, 0,0,c);  9-tuple t -> t;
               nested ((t0,t1,t2),(t3,t4,t5),(t6,t7,t8)) -> (t0..t8)            [row-major]
               hence the four descriptions of one tensor normalise to the same 9 components;
               tuples of any other length / nested rows of length != 3 raise ValueError.
  Material(permittivity=, permeability=, electric_conductivity=, magnetic_conductivity=)
      ensures  every stored property is the normal form of its own argument (no cross-talk).
  _is_property_diagonally_anisotropic(t)   <=>  t1=t2=t3=t5=t6=t7 = 0                      (exact)
  _is_property_isotropic(t)                <=>  off-diagonals = 0 and close(t0,t4) and close(t4,t8),
               close = math.isclose with its default relative tolerance 1e-9; in particular
               (t0 = t4 = t8 and off-diagonals = 0) => True, and True => diagonal.
  Material.is_isotropic_<p> / is_diagonally_anisotropic_<p> / is_all_*  agree with the tensor of <p>.
  compute_allowed_permittivities / _permeabilities / _electric_conductivities / _magnetic_conductivities
  (three layouts each), compute_ordered_names / _materials and compute_allowed_dispersive_coefficients
      ensures  entry i of every list belongs to the SAME material, and that order is ascending in the
               documented key (eps_xx, mu_xx, sigma_xx, sigma_m_xx).
  Material.from_complex_permittivity(eps, frequency= | wavelength= | reference=, permeability=mu)
      ensures  permittivity + i*electric_conductivity/(omega0*eps0) == eps  and
               permeability + i*magnetic_conductivity/(omega0*mu0) == mu, component-wise, omega0 = 2 pi f0.
"""

from __future__ import annotations

import itertools
import math
import warnings

from spec.C35_shims import math_with_isclose, sym_complex, sym_isclose, sym_np
from vc import array as A
from vc.core import SymBool, SymNum, ctx, sym_max, v_eq
from vc.harness import Task
from vc.obl import sym_real

ID = "C39"
LEVEL = "proof"
TECHNIQUE = "symbolic execution of the real normalisation / predicate / ordering / constructor functions on symbolic floats; path forking on every Python-level comparison; z3"
MODULES = ["fdtdx.materials", "fdtdx.dispersion", "fdtdx.core.wavelength", "fdtdx.core.jax.pytrees"]
FILES = ["src/fdtdx/materials.py"]
FUNCTIONS = [
    "fdtdx.materials._normalize_material_property",
    "fdtdx.materials.Material.__init__",
    "fdtdx.materials._is_property_isotropic",
    "fdtdx.materials._is_property_diagonally_anisotropic",
    "fdtdx.materials.Material.is_isotropic_* / is_diagonally_anisotropic_* / is_all_isotropic / is_all_diagonally_anisotropic",
    "fdtdx.materials.compute_ordered_material_name_tuples / compute_ordered_names / compute_ordered_materials",
    "fdtdx.materials.compute_allowed_permittivities / _permeabilities / _electric_conductivities / _magnetic_conductivities",
    "fdtdx.materials.compute_allowed_dispersive_coefficients (material order)",
    "fdtdx.materials.Material.from_complex_permittivity",
    "fdtdx.materials._split_complex_property",
    "fdtdx.materials._resolve_reference_omega",
]
INLINED = ["builtin sorted() on tuples of symbolic keys (every comparison forks)", "fdtdx.core.wavelength.WaveCharacter.get_frequency"]
STUBS = [
    "math.isclose(a, b) := |a-b| <= max(1e-9*max(|a|,|b|), 0)   (CPython's definition on finite values; spec/C35_shims.sym_isclose)",
    "numpy float buffers as numpy object buffers, 3x3 determinant by cofactors, complex() the identity on symbolic values (spec/C35_shims)",
]
ASSUMPTIONS = [
    "material values are finite reals (no NaN/inf); 3-tuples are tuples of floats (a 3-tuple of Python ints is REJECTED by the code with ValueError, shown by its own obligation; it is never mis-normalised)",
    "isotropy is classified with math.isclose's default RELATIVE tolerance 1e-9 on the diagonal (so diagonals that differ by <= 1e-9 relative count as isotropic); the contract states exactly that tolerance",
    "ordering: 3 materials with fully symbolic sort keys (all orders and all tie patterns arise as paths); thorough tier additionally 4 materials with symbolic (eps, mu) keys",
    "from_complex_permittivity with full (9-component / nested) tensors: real parts concrete (they only pass through), imaginary parts symbolic; scalar and 3-tuple forms fully symbolic",
    "from_complex_permittivity: 'reproduces that permittivity' is read as eps' + i*sigma/(omega0*eps0) == eps (the e^{-i omega t} convention of the docstring); reference frequency > 0",
]
MIN_OBLIGATIONS = {"quick": 300, "thorough": 600}
LEVEL_TEXT = (
    "Deductive proof for all real material values that the four input descriptions normalise to the same row-major 9-tuple, that the isotropy / diagonality "
    "predicates are equivalent to the stated tensor patterns (math.isclose semantics explicit), that every per-property list and the dispersive coefficient table "
    "use one common ascending material order (3 materials, all orders and ties), and that from_complex_permittivity reproduces the complex tensor at the reference frequency"
)
LEVEL_NOTE = "exact real arithmetic; math.isclose modelled by its definition; number of materials in the ordering obligations is 3 (4 in the thorough tier)"

_PATCH = {
    "fdtdx.materials": {"np": sym_np(), "complex": sym_complex, "math": math_with_isclose()},
    "fdtdx.dispersion": {"np": sym_np(), "complex": sym_complex},
}

OFF = (1, 2, 3, 5, 6, 7)
PROPS = ("permittivity", "permeability", "electric_conductivity", "magnetic_conductivity")


def _syms(name, n, inp=None, **kw):
    out = [sym_real(f"{name}{i}", **kw) for i in range(n)]
    if inp is not None:
        for i, v in enumerate(out):
            inp.scalar(f"{name}{i}", v)
    return out


def _same_tuple(c, name, got, want):
    ok = isinstance(got, tuple) and len(got) == len(want)
    c.prove(f"{name}/is_{len(want)}-tuple", ok)
    if not ok:
        return False
    res = True
    for i, (g, w) in enumerate(zip(got, want)):
        res &= c.prove(f"{name}[{i}]", v_eq(g, w))
    return res


def _iff(a, b):
    a, b = A._tobool(a), A._tobool(b)
    return A._vor(A._vand(a, b), A._vand(A._vnot(a), A._vnot(b)))


def _all(conds):
    r = True
    for x in conds:
        r = A._vand(r, x)
    return r


# ---------------------------------------------------------------------------------------
# normalisation
# ---------------------------------------------------------------------------------------


def _normalise(c, inp):
    import fdtdx.materials as M

    s = sym_real("s")
    inp.scalar("s", s)
    a, b, cc = _syms("d", 3, inp)
    t = _syms("t", 9, inp)
    N = M._normalize_material_property
    c.cover("pre")
    _same_tuple(c, "scalar", N(s), (s, 0, 0, 0, s, 0, 0, 0, s))
    _same_tuple(c, "3-tuple", N((a, b, cc)), (a, 0, 0, 0, b, 0, 0, 0, cc))
    _same_tuple(c, "9-tuple", N(tuple(t)), tuple(t))
    _same_tuple(c, "nested", N((tuple(t[0:3]), tuple(t[3:6]), tuple(t[6:9]))), tuple(t))
    # one tensor, four descriptions
    ref = N(s)
    _same_tuple(c, "scalar==3-tuple(s,s,s)", N((s, s, s)), ref)
    _same_tuple(c, "scalar==9-tuple(diag s)", N((s, 0.0, 0.0, 0.0, s, 0.0, 0.0, 0.0, s)), ref)
    _same_tuple(c, "scalar==nested(diag s)", N(((s, 0.0, 0.0), (0.0, s, 0.0), (0.0, 0.0, s))), ref)
    ref3 = N((a, b, cc))
    _same_tuple(c, "3-tuple==9-tuple(diag)", N((a, 0.0, 0.0, 0.0, b, 0.0, 0.0, 0.0, cc)), ref3)
    _same_tuple(c, "3-tuple==nested(diag)", N(((a, 0.0, 0.0), (0.0, b, 0.0), (0.0, 0.0, cc))), ref3)
    # concrete python numbers take the same routes
    _same_tuple(c, "scalar(int)", N(2), (2, 0, 0, 0, 2, 0, 0, 0, 2))
    _same_tuple(c, "3-tuple(float literals)", N((1.5, 2.5, 3.5)), (1.5, 0, 0, 0, 2.5, 0, 0, 0, 3.5))


def _normalise_rejects(c, inp):
    import fdtdx.materials as M

    N = M._normalize_material_property
    x = _syms("x", 9, inp)
    bad = {
        "len1": (x[0],),
        "len2": (x[0], x[1]),
        "len4": tuple(x[:4]),
        "len8": tuple(x[:8]),
        "len10": tuple(x) + (x[0],),
        "nested_row_len2": ((x[0], x[1]), (x[2], x[3], x[4]), (x[5], x[6], x[7])),
        "nested_row_len4": ((x[0], x[1], x[2]), (x[3], x[4], x[5], x[6]), (x[6], x[7], x[8])),
        "mixed_nested": ((x[0], x[1], x[2]), x[3], x[4]),
        "empty": (),
    }
    for name, v in bad.items():
        try:
            r = N(v)
            c.prove(f"rejects/{name}", False)
        except ValueError:
            c.prove(f"rejects/{name}", True)
    # a 3-tuple of Python ints is rejected (never silently mis-normalised)
    try:
        r = N((1, 2, 3))
        c.prove("int_3-tuple:rejected_or_diagonal", r == (1, 0.0, 0.0, 0.0, 2, 0.0, 0.0, 0.0, 3))
    except ValueError:
        c.prove("int_3-tuple:rejected_or_diagonal", True)


def _material_constructor(c, inp):
    """each stored property is the normal form of its own argument; descriptions interchangeable"""
    import fdtdx

    vals = {}
    for p_i, p in enumerate(PROPS):
        vals[p] = _syms(f"{p}_", 9, inp)
    for i in (0, 4, 8):
        c.assume(A._tobool(vals["permittivity"][i] > 0))
    c.cover("pre")
    forms = {
        "9-tuple": lambda t: tuple(t),
        "nested": lambda t: (tuple(t[0:3]), tuple(t[3:6]), tuple(t[6:9])),
    }
    with warnings.catch_warnings():
        warnings.simplefilter("ignore")
        for fname, f in forms.items():
            m = fdtdx.Material(**{p: f(vals[p]) for p in PROPS})
            for p in PROPS:
                _same_tuple(c, f"Material({fname}).{p}", getattr(m, p), tuple(vals[p]))
        # diagonal / scalar descriptions, a different description per property
        d = {p: vals[p][:3] for p in PROPS}
        m = fdtdx.Material(permittivity=tuple(d["permittivity"]), permeability=d["permeability"][0], electric_conductivity=tuple(d["electric_conductivity"]), magnetic_conductivity=d["magnetic_conductivity"][1])
        x, y, z = d["permittivity"]
        _same_tuple(c, "Material(3-tuple).permittivity", m.permittivity, (x, 0, 0, 0, y, 0, 0, 0, z))
        s = d["permeability"][0]
        _same_tuple(c, "Material(scalar).permeability", m.permeability, (s, 0, 0, 0, s, 0, 0, 0, s))
        x, y, z = d["electric_conductivity"]
        _same_tuple(c, "Material(3-tuple).electric_conductivity", m.electric_conductivity, (x, 0, 0, 0, y, 0, 0, 0, z))
        s = d["magnetic_conductivity"][1]
        _same_tuple(c, "Material(scalar).magnetic_conductivity", m.magnetic_conductivity, (s, 0, 0, 0, s, 0, 0, 0, s))
        m0 = fdtdx.Material()
        _same_tuple(c, "Material().permittivity", m0.permittivity, (1, 0, 0, 0, 1, 0, 0, 0, 1))
        _same_tuple(c, "Material().permeability", m0.permeability, (1, 0, 0, 0, 1, 0, 0, 0, 1))
        _same_tuple(c, "Material().electric_conductivity", m0.electric_conductivity, (0,) * 9)
        _same_tuple(c, "Material().magnetic_conductivity", m0.magnetic_conductivity, (0,) * 9)


# ---------------------------------------------------------------------------------------
# predicates
# ---------------------------------------------------------------------------------------


def _close(a, b):
    return A._tobool(sym_isclose(a, b))


def _spec_diag(t):
    return _all(A._tobool(t[i] == 0) for i in OFF)


def _spec_iso(t):
    return _all([_spec_diag(t), _close(t[0], t[4]), _close(t[4], t[8])])


def _spec_iso_exact(t):
    return _all([_spec_diag(t), A._tobool(t[0] == t[4]), A._tobool(t[4] == t[8])])


def _as_bool(r):
    return r if isinstance(r, bool) else bool(r)


def _predicates(c, inp):
    import fdtdx.materials as M

    t = _syms("t", 9, inp)
    c.cover("pre")
    r = _as_bool(M._is_property_diagonally_anisotropic(tuple(t)))
    c.prove("diagonal<=>offdiagonals_zero", _iff(r, _spec_diag(t)))
    r = _as_bool(M._is_property_isotropic(tuple(t)))
    c.prove("isotropic<=>offdiagonals_zero_and_close_diagonal", _iff(r, _spec_iso(t)))
    c.prove("exactly_isotropic=>isotropic", A._vor(A._vnot(_spec_iso_exact(t)), r))
    c.prove("isotropic=>diagonal", A._vor(not r, _spec_diag(t)))
    if r:
        c.prove("isotropic=>diagonal_within_1e-9_relative", _all([abs(t[0] - t[4]) <= 1e-9 * sym_max(abs(t[0]), abs(t[4])), abs(t[4] - t[8]) <= 1e-9 * sym_max(abs(t[4]), abs(t[8]))]))


def _predicates_on_normal_forms(c, inp):
    """scalar input is isotropic, 3-tuple input is diagonal (isotropic iff its entries are close)"""
    import fdtdx.materials as M

    s = sym_real("s")
    d = _syms("d", 3, inp)
    N = M._normalize_material_property
    c.cover("pre")
    c.prove("scalar_is_isotropic", _as_bool(M._is_property_isotropic(N(s))) is True)
    c.prove("scalar_is_diagonal", _as_bool(M._is_property_diagonally_anisotropic(N(s))) is True)
    c.prove("3-tuple_is_diagonal", _as_bool(M._is_property_diagonally_anisotropic(N(tuple(d)))) is True)
    r = _as_bool(M._is_property_isotropic(N(tuple(d))))
    c.prove("3-tuple_isotropic<=>close_entries", _iff(r, _all([_close(d[0], d[1]), _close(d[1], d[2])])))


def _material_predicates(which):
    """Material.is_isotropic_<p> etc. read the tensor of <p> (and no other)"""

    def body(c, inp):
        import fdtdx

        vals = {p: _syms(f"{p}_", 9, inp) for p in PROPS}
        for i in (0, 4, 8):
            c.assume(A._tobool(vals["permittivity"][i] > 0))
        with warnings.catch_warnings():
            warnings.simplefilter("ignore")
            m = fdtdx.Material(**{p: tuple(vals[p]) for p in PROPS})
        c.cover("pre")
        if which in PROPS:
            p = which
            r = _as_bool(getattr(m, f"is_isotropic_{p}"))
            c.prove(f"is_isotropic_{p}<=>pattern", _iff(r, _spec_iso(vals[p])))
            r = _as_bool(getattr(m, f"is_diagonally_anisotropic_{p}"))
            c.prove(f"is_diagonally_anisotropic_{p}<=>pattern", _iff(r, _spec_diag(vals[p])))
        elif which == "all_isotropic":
            r = _as_bool(m.is_all_isotropic)
            c.prove("is_all_isotropic<=>every_tensor_isotropic", _iff(r, _all(_spec_iso(vals[p]) for p in PROPS)))
        else:
            r = _as_bool(m.is_all_diagonally_anisotropic)
            c.prove("is_all_diagonally_anisotropic<=>every_tensor_diagonal", _iff(r, _all(_spec_diag(vals[p]) for p in PROPS)))

    return body


# ---------------------------------------------------------------------------------------
# ordering
# ---------------------------------------------------------------------------------------


def _lex_le(k1, k2):
    """k1 <= k2 lexicographically (tuples of values)"""
    res = True
    for a, b in reversed(list(zip(k1, k2))):
        res = A._vor(A._tobool(a < b), A._vand(A._tobool(a == b), res))
    return res


def _ordering(n_mats, sym_keys):
    def body(c, inp):
        import fdtdx
        import fdtdx.dispersion as D
        import fdtdx.materials as M

        names = ["mat_c", "mat_a", "mat_d", "mat_b"][:n_mats]
        mats, keys, tens = {}, {}, {}
        dt = 1e-17
        poles = {}
        with warnings.catch_warnings():
            warnings.simplefilter("ignore")
            for i, nm in enumerate(names):
                tens[nm] = {}
                for p in PROPS:
                    t = _syms(f"{nm}_{p}_", 9, inp) if p in sym_keys else [float(10 * i + k + 1) for k in range(9)]
                    if p not in sym_keys:
                        t[0] = 1.0  # equal key on the non-symbolic properties: ties are broken by the later keys
                    tens[nm][p] = t
                c.assume(A._tobool(tens[nm]["permittivity"][0] > 0))
                for k in (4, 8):
                    if A.is_sym(tens[nm]["permittivity"][k]):
                        c.assume(A._tobool(tens[nm]["permittivity"][k] > 0))
                # a distinct (concrete) pole per material identifies it in the coefficient table
                poles[nm] = D.LorentzPole(resonance_frequency=1e15 * (i + 1), damping=1e13 * (i + 2), delta_epsilon=1.0 + i)
                mats[nm] = fdtdx.Material(**{p: tuple(tens[nm][p]) for p in PROPS}, dispersion=D.DispersionModel(poles=(poles[nm],)) if i != 1 else None)
                keys[nm] = tuple(tens[nm][p][0] for p in PROPS)
        c.cover("pre")
        order = M.compute_ordered_names(mats)
        inp.note("order", list(order))
        c.prove("ordered_names:is_permutation", sorted(order) == sorted(names))
        for i in range(len(order) - 1):
            c.prove(f"ordered_names:ascending[{i}]", _lex_le(keys[order[i]], keys[order[i + 1]]))
        om = M.compute_ordered_materials(mats)
        c.prove("ordered_materials:same_order", len(om) == len(order) and all(om[i] is mats[order[i]] for i in range(len(order))))
        pairs = M.compute_ordered_material_name_tuples(mats)
        c.prove("ordered_name_tuples:same_order", [p[0] for p in pairs] == list(order) and all(p[1] is mats[p[0]] for p in pairs))
        fns = {
            "permittivity": M.compute_allowed_permittivities,
            "permeability": M.compute_allowed_permeabilities,
            "electric_conductivity": M.compute_allowed_electric_conductivities,
            "magnetic_conductivity": M.compute_allowed_magnetic_conductivities,
        }
        for p, fn in fns.items():
            for layout, kw, comps in (("isotropic", dict(isotropic=True), (0,)), ("diagonal", dict(diagonally_anisotropic=True), (0, 4, 8)), ("full", {}, tuple(range(9)))):
                lst = fn(mats, **kw)
                ok = isinstance(lst, list) and len(lst) == len(order)
                c.prove(f"allowed_{p}/{layout}:length", ok)
                if not ok:
                    continue
                for i, nm in enumerate(order):
                    _same_tuple(c, f"allowed_{p}/{layout}[{i}]_is_material_{i}_of_the_common_order", tuple(lst[i]), tuple(tens[nm][p][k] for k in comps))
        c1, c2, c3, c4 = M.compute_allowed_dispersive_coefficients(mats, dt, 1, 1)
        c.prove("dispersive_coefficients:shape", c1.shape == (len(order), 1, 1) and c3.shape == (len(order), 1, 1))
        for i, nm in enumerate(order):
            if mats[nm].dispersion is None:
                want = (0.0, 0.0, 0.0, 0.0)
            else:
                e1, e2, e3, e4 = D.compute_pole_coefficients_tensor((poles[nm],), dt)
                want = (e1[0, 0], e2[0, 0], e3[0, 0], e4[0, 0])
            got = (c1[i, 0, 0], c2[i, 0, 0], c3[i, 0, 0], c4[i, 0, 0])
            c.prove(f"dispersive_coefficients[{i}]_is_material_{i}_of_the_common_order", all(v_eq(g, w) is True for g, w in zip(got, want)))

    return body


# ---------------------------------------------------------------------------------------
# from_complex_permittivity
# ---------------------------------------------------------------------------------------


def _from_complex(form, ref_kind):
    def body(c, inp):
        import fdtdx
        import fdtdx.materials as M
        from fdtdx import constants

        n = {"scalar": 1, "3-tuple": 3, "9-tuple": 9, "nested": 9}[form]
        er, ei = _syms("eps_re", n, inp), _syms("eps_im", n, inp)
        mr, mi = _syms("mu_re", n, inp), _syms("mu_im", n, inp)
        if n == 9:
            # full tensors: the real parts only pass through (and feed the singularity guard, a cubic
            # determinant test): they are fixed to concrete invertible tensors, the imaginary parts
            # (which become the conductivities) stay symbolic
            er = [2.25, 0.125, -0.25, 0.5, 3.0, 0.0625, -0.125, 0.25, 1.5]
            mr = [1.0, 0.0, 0.25, 0.0, 1.5, 0.0, -0.25, 0.0, 2.0]
        eps = [er[k] + 1j * ei[k] for k in range(n)]
        mu = [mr[k] + 1j * mi[k] for k in range(n)]

        def shape(v):
            if form == "scalar":
                return v[0]
            if form == "nested":
                return (tuple(v[0:3]), tuple(v[3:6]), tuple(v[6:9]))
            return tuple(v)

        f0 = sym_real("ref", lo_strict=0)
        inp.scalar("ref", f0)
        if ref_kind == "frequency":
            kw, omega = dict(frequency=f0), 2.0 * math.pi * f0
        elif ref_kind == "wavelength":
            kw, omega = dict(wavelength=f0), 2.0 * math.pi * (constants.c / f0)
        else:
            from fdtdx.core.wavelength import WaveCharacter

            kw, omega = dict(reference=WaveCharacter(wavelength=f0)), 2.0 * math.pi * (constants.c / f0)
        inp.note("case", dict(form=form, ref=ref_kind))
        c.cover("pre")
        with warnings.catch_warnings():
            warnings.simplefilter("ignore")
            try:
                m = fdtdx.Material.from_complex_permittivity(shape(eps), permeability=shape(mu), **kw)
            except ValueError as e:
                c.prove("raises_only_singular_real_part", "singular" in str(e))
                return
        full = {1: lambda v: (v[0], 0, 0, 0, v[0], 0, 0, 0, v[0]), 3: lambda v: (v[0], 0, 0, 0, v[1], 0, 0, 0, v[2]), 9: tuple}[n]
        want_eps, want_mu = full(eps), full(mu)
        for k in range(9):
            got = m.permittivity[k] + 1j * (m.electric_conductivity[k] / (omega * constants.eps0))
            c.prove(f"eps[{k}]_reproduced_at_reference", v_eq(got, want_eps[k]))
            got = m.permeability[k] + 1j * (m.magnetic_conductivity[k] / (omega * constants.mu0))
            c.prove(f"mu[{k}]_reproduced_at_reference", v_eq(got, want_mu[k]))
            c.prove(f"stored_values_real[{k}]", all(not (isinstance(v, SymNum) and v.im is not None) and not isinstance(v, complex) for v in (m.permittivity[k], m.electric_conductivity[k], m.permeability[k], m.magnetic_conductivity[k])))

    return body


def _reference_exactly_one(c, inp):
    """exactly one of reference / wavelength / frequency must be given"""
    import fdtdx

    f0 = sym_real("ref", lo_strict=0)
    for kw in ({}, dict(frequency=f0, wavelength=f0)):
        try:
            fdtdx.Material.from_complex_permittivity(2.0 + 0.1j, **kw)
            c.prove(f"rejects_{len(kw)}_references", False)
        except ValueError:
            c.prove(f"rejects_{len(kw)}_references", True)


# ---------------------------------------------------------------------------------------


def tasks(tier, seed):
    out = {
        "normalise/four_descriptions": Task(_normalise, extra_patch=_PATCH),
        "normalise/rejects_malformed": Task(_normalise_rejects, extra_patch=_PATCH),
        "normalise/material_constructor": Task(_material_constructor, extra_patch=_PATCH),
        "predicates/tensor_pattern": Task(_predicates, extra_patch=_PATCH),
        "predicates/on_normal_forms": Task(_predicates_on_normal_forms, extra_patch=_PATCH),
    }
    for w in (*PROPS, "all_isotropic", "all_diagonal"):
        out[f"predicates/material/{w}"] = Task(_material_predicates(w), extra_patch=_PATCH, max_paths=20000)
    out["ordering/3_materials_eps_mu_keys"] = Task(_ordering(3, ("permittivity", "permeability")), extra_patch=_PATCH, max_paths=20000)
    out["ordering/3_materials_conductivity_keys"] = Task(_ordering(3, ("electric_conductivity", "magnetic_conductivity")), extra_patch=_PATCH, max_paths=20000)
    out["ordering/2_materials_all_keys"] = Task(_ordering(2, PROPS), extra_patch=_PATCH, max_paths=20000)
    if tier == "thorough":
        out["ordering/3_materials_all_keys"] = Task(_ordering(3, PROPS), extra_patch=_PATCH, max_paths=200000)
        out["ordering/4_materials_eps_mu_keys"] = Task(_ordering(4, ("permittivity", "permeability")), extra_patch=_PATCH, max_paths=200000)
    for form in ("scalar", "3-tuple", "9-tuple", "nested"):
        for ref in ("frequency", "wavelength", "reference") if form in ("scalar", "9-tuple") or tier == "thorough" else ("frequency",):
            out[f"from_complex_permittivity/{form}/{ref}"] = Task(_from_complex(form, ref), extra_patch=_PATCH, max_paths=20000)
    out["from_complex_permittivity/exactly_one_reference"] = Task(_reference_exactly_one, extra_patch=_PATCH)
    return out


def replay(key, obligation, witness):
    """real functions on concrete floats drawn from the witness (float64, real numpy / math)"""
    import cmath
    import math

    import numpy as np

    import fdtdx
    import fdtdx.materials as M
    from fdtdx import constants

    sc = (witness or {}).get("scalars", {})

    def vec(prefix, n, default):
        return [float(sc[f"{prefix}{i}"]) if isinstance(sc.get(f"{prefix}{i}"), (int, float)) else default(i) for i in range(n)]

    details = []
    if key.startswith("normalise"):
        rng = np.random.default_rng(0)
        t = vec("t", 9, lambda i: float(rng.normal()))
        s = float(sc.get("s", 2.5)) if isinstance(sc.get("s"), (int, float)) else 2.5
        d = vec("d", 3, lambda i: 1.0 + i)
        N = M._normalize_material_property
        bad = []
        if N(s) != (s, 0.0, 0.0, 0.0, s, 0.0, 0.0, 0.0, s) or N((s, s, s)) != N(s):
            bad.append("scalar")
        if N(tuple(d)) != (d[0], 0.0, 0.0, 0.0, d[1], 0.0, 0.0, 0.0, d[2]):
            bad.append("3-tuple")
        if N(tuple(t)) != tuple(t) or N((tuple(t[0:3]), tuple(t[3:6]), tuple(t[6:9]))) != tuple(t):
            bad.append("9-tuple/nested")
        with warnings.catch_warnings():
            warnings.simplefilter("ignore")
            m = fdtdx.Material(permittivity=(tuple(t[0:3]), tuple(t[3:6]), tuple(t[6:9])), permeability=tuple(d), electric_conductivity=s, magnetic_conductivity=tuple(t))
        if m.permittivity != tuple(t) or m.permeability != N(tuple(d)) or m.electric_conductivity != N(s) or m.magnetic_conductivity != tuple(t):
            bad.append("Material constructor")
        return bool(bad), f"real _normalize_material_property / Material on s={s}, d={d}, t={t}: deviating forms {bad}"
    if key.startswith("predicates"):
        cands = []
        for pre in ("t", *[f"{p}_" for p in PROPS]):
            if f"{pre}0" in sc:
                cands.append(vec(pre, 9, lambda i: 0.0))
        cands += [[1.0, 0, 0, 0, 1.0, 0, 0, 0, 1.0], [1.0, 0, 0, 0, 2.0, 0, 0, 0, 1.0], [1.0, 0, 1e-30, 0, 1.0, 0, 0, 0, 1.0], [2.0, 0, 0, 0, 2.0, 0, 0, 0, 3.0], [1.0, 0.5, 0, 0, 1.0, 0, 0, 0, 1.0]]
        for t in cands:
            t = [float(x) for x in t]
            diag = all(t[i] == 0 for i in OFF)
            iso = diag and math.isclose(t[0], t[4]) and math.isclose(t[4], t[8])
            gd, gi = M._is_property_diagonally_anisotropic(tuple(t)), M._is_property_isotropic(tuple(t))
            details.append(f"t={t}: diagonal code={gd} spec={diag}; isotropic code={gi} spec={iso}")
            if gd != diag or gi != iso:
                return True, "\n".join(details)
            with warnings.catch_warnings():
                warnings.simplefilter("ignore")
                for p in PROPS:
                    m = fdtdx.Material(**{p: tuple(t)}) if p != "permittivity" or all(t[i] > 0 for i in (0, 4, 8)) else None
                    if m is None:
                        continue
                    if getattr(m, f"is_isotropic_{p}") != iso or getattr(m, f"is_diagonally_anisotropic_{p}") != diag:
                        return True, "\n".join(details) + f"\nMaterial.is_*_{p} disagrees with the tensor pattern"
                    others_ok = m.is_all_isotropic == iso and m.is_all_diagonally_anisotropic == diag
                    if not others_ok:
                        return True, "\n".join(details) + f"\nMaterial.is_all_* disagrees when only {p} is set"
        return False, "\n".join(details)
    if key.startswith("ordering"):
        import fdtdx.dispersion as D

        bases = [
            [(1.0, 1.0, 0.0, 0.0), (1.0, 1.0, 0.0, 1.0), (2.0, 1.0, 0.0, 0.0)],  # tie down to the last key
            [(1.0, 2.0, 0.0, 0.0), (1.0, 1.0, 0.5, 0.0), (2.0, 1.0, 0.0, 0.0)],  # eps tie, decided by mu
            [(1.0, 1.0, 0.7, 0.0), (1.0, 1.0, 0.2, 0.0), (0.5, 3.0, 0.0, 0.0)],  # eps, mu tie, decided by sigma
        ]
        # the witness' own keys first, when it carries them
        wk = []
        for nm in ("mat_c", "mat_a", "mat_d"):
            ks = [sc.get(f"{nm}_{p}_0") for p in PROPS]
            wk.append(tuple(float(k) if isinstance(k, (int, float)) else 1.0 for k in ks))
        if any(f"mat_c_{p}_0" in sc for p in PROPS):
            wk = [(e if e > 0 else 1.0, u, se, sm) for e, u, se, sm in wk]
            bases.insert(0, wk)
        for attempt, (base, perm) in enumerate((b, pm) for b in bases for pm in itertools.permutations(range(3))):
            rng = np.random.default_rng(attempt)
            names = ["mat_c", "mat_a", "mat_d"]
            mats = {}
            for nm, k in zip(names, perm):
                e, u, se, sm = base[k]
                mats[nm] = fdtdx.Material(permittivity=(e, 5.0 + k, 6.0 + k), permeability=(u, 2.0 + k, 3.0), electric_conductivity=(se, 0.1 * k, 0.0), magnetic_conductivity=(sm, 0.0, 0.2 * k), dispersion=D.DispersionModel(poles=(D.LorentzPole(resonance_frequency=1e15 * (k + 1), damping=1e13, delta_epsilon=1.0 + k),)))
            order = M.compute_ordered_names(mats)
            lists = {
                "permittivity": M.compute_allowed_permittivities(mats),
                "permeability": M.compute_allowed_permeabilities(mats),
                "electric_conductivity": M.compute_allowed_electric_conductivities(mats),
                "magnetic_conductivity": M.compute_allowed_magnetic_conductivities(mats),
            }
            for p, lst in lists.items():
                for i, nm in enumerate(order):
                    if tuple(lst[i]) != tuple(getattr(mats[nm], p)):
                        return True, f"materials {list(mats)}: compute_ordered_names -> {order}, but compute_allowed_{p}[{i}] = {lst[i]} is not the {p} of '{nm}' ({getattr(mats[nm], p)})"
            c1, c2, c3, c4 = M.compute_allowed_dispersive_coefficients(mats, 1e-17, 1, 1)
            for i, nm in enumerate(order):
                e1, e2, e3, e4 = D.compute_pole_coefficients_tensor(mats[nm].dispersion.poles, 1e-17)
                if not (np.isclose(c1[i, 0, 0], e1[0, 0], rtol=1e-14) and np.isclose(c3[i, 0, 0], e3[0, 0], rtol=1e-14)):
                    return True, f"compute_allowed_dispersive_coefficients row {i} is not the coefficient set of '{nm}' (order {order})"
            keys = [tuple(getattr(mats[nm], p)[0] for p in PROPS) for nm in order]
            if keys != sorted(keys):
                return True, f"order {order} is not ascending in the documented key: {keys}"
            details.append(f"insertion order {list(mats)} -> {order}: all lists consistent")
        return False, "\n".join(details)
    if key.startswith("from_complex_permittivity"):
        rng = np.random.default_rng(1)
        for attempt in range(5):
            eps = tuple(complex(rng.uniform(1, 4) if i in (0, 4, 8) else rng.uniform(-0.3, 0.3), rng.uniform(-0.5, 0.5)) for i in range(9))
            mu = tuple(complex(rng.uniform(1, 2) if i in (0, 4, 8) else rng.uniform(-0.1, 0.1), rng.uniform(-0.2, 0.2)) for i in range(9))
            f0 = float(rng.uniform(1e14, 5e14))
            for kw, omega in ((dict(frequency=f0), 2 * math.pi * f0), (dict(wavelength=constants.c / f0), 2 * math.pi * f0)):
                m = fdtdx.Material.from_complex_permittivity(eps, permeability=mu, **kw)
                for k in range(9):
                    got_e = complex(m.permittivity[k], m.electric_conductivity[k] / (omega * constants.eps0))
                    got_m = complex(m.permeability[k], m.magnetic_conductivity[k] / (omega * constants.mu0))
                    if abs(got_e - eps[k]) > 1e-9 * max(1, abs(eps[k])) or abs(got_m - mu[k]) > 1e-9 * max(1, abs(mu[k])):
                        return True, f"from_complex_permittivity({eps}, permeability={mu}, {kw}): component {k} reproduces eps={got_e} (wanted {eps[k]}), mu={got_m} (wanted {mu[k]})"
            details.append(f"attempt {attempt}: all 9 components of eps and mu reproduced at f0={f0:.4g}")
        return False, "\n".join(details)
    return False, "no replay for this task"
