"""C38  Equivalent grid descriptions give identical simulations.

The three descriptions of an equally spaced grid
    U: SimulationConfig(grid=UniformGrid(spacing=s, center=ctr))
    Q: SimulationConfig(grid=QuasiUniformGrid(dx=s, dy=s, dz=s, center=ctr))
    R: SimulationConfig(grid=RectilinearGrid(edges_a[i] = ctr_a - n_a*s/2 + i*s))   (explicit edges; also
       RectilinearGrid.uniform(shape, s, center=ctr))
enter every simulation function through ONE object: `place_objects` first replaces `config.grid` by
`config.grid.resolve(volume shape)` (`_resolve_grid_from_volume`; a no-op for R) and everything downstream
(placement, materials, sources, detectors, metric factors, time step, run_fdtd) receives that config.

Proved here on the real code:
  (A) for all cell counts n_a >= 1, spacings s > 0 and centres: U.resolve, RectilinearGrid.uniform and
      Q.resolve hand the RectilinearGrid constructor edge arrays that are element-wise equal to the explicit
      edges of R (so edges[i] - edges[0] == i*s);  Q.resolve raises ValueError exactly for an odd count;
      Q.axis_spacing(a) == U.spacing (same argument of round() when the volume is given in metres).
  (B) the constructor reads nothing but its three edge arguments (syntactic frame check), hence equal
      edge arrays give field-wise equal grids; and, executed for enumerated cell counts with symbolic s
      and centre, the resolved grids of U, Q, R agree in every field the solver can read: edges,
      cell widths (== s), per-axis minimum spacings, is_uniform (True), uniform_spacing; the configs agree in
      has_nonuniform_grid (False), uniform_spacing(), courant_number, time_step_duration; the real
      `_resolve_grid_from_volume` produces these grids.
  (C) sanity lemma: were the non-uniform code path taken on equal widths, `_metric_scale` is identically 1.
Equal configurations + equal objects + deterministic simulation functions => equal fields and detector
records.  That last step is an argument, not an obligation: see ASSUMPTIONS.
"""

from __future__ import annotations

import ast
import inspect
import textwrap

import z3

from props import C37 as P37
from spec import C37_np as NP
from vc import array as A
from vc.array import SymArray
from vc.core import SymNum, _is_pyint, apply_uf, ctx, zbool
from vc.harness import Task
from vc.obl import prove_arrays_equal, sym_int, sym_real

ID = "C38"
LEVEL = "proof"
TECHNIQUE = "relational symbolic execution of the real grid-resolution code for the three grid descriptions in one session; field-wise equality of the resolved solver grids; z3 / ring normal form"
MODULES = ["fdtdx.core.grid", "fdtdx.config", "fdtdx.fdtd.initialization", "fdtdx.core.physics.curl"]
FILES = ["src/fdtdx/core/grid.py", "src/fdtdx/config.py", "src/fdtdx/core/physics/curl.py", "src/fdtdx/fdtd/initialization.py"]
FUNCTIONS = [
    "fdtdx.core.grid.UniformGrid.resolve",
    "fdtdx.core.grid.QuasiUniformGrid.resolve",
    "fdtdx.core.grid.RectilinearGrid.uniform",
    "fdtdx.core.grid.RectilinearGrid.__post_init__",
    "fdtdx.fdtd.initialization._resolve_grid_from_volume",
    "fdtdx.config.SimulationConfig.time_step_duration / has_nonuniform_grid / uniform_spacing / courant_number / resolve_grid",
    "fdtdx.core.physics.curl._metric_scale",
]
INLINED = ["QuasiUniformGrid.axis_spacing / is_uniform / min_spacing", "UniformGrid.is_uniform / min_spacing / uniform_spacing", "RectilinearGrid.cfl_time_step", "fdtdx.fdtd.initialization._resolve_volume_name"]
STUBS = [
    "RectilinearGrid.__post_init__ in part (A): replaced by a recorder of the edge arrays it receives (its own behaviour is part (B))",
    "numpy.sqrt / math.sqrt: exact real square root; numpy.round(x, 14): unspecified deterministic function; numpy.finfo.eps: unspecified constant >= 0",
]
ASSUMPTIONS = [
    "the simulation functions (place_objects after its first statement, apply_params, run_fdtd, detectors) are deterministic functions of the objects, constraints, key and the configuration returned by grid resolution; they cannot observe which description produced the resolved grid because config.grid has been replaced by it (argument from the code structure, not an obligation)",
    "the caller passes the configuration returned by place_objects to the later stages (as the API prescribes); the unresolved descriptions U and Q themselves also agree on time_step_duration/uniform_spacing (proved), the explicit grid R differs from them only by the 14-decimal rounding of its stored spacing",
    "part (B) executes the real constructor for the enumerated cell counts only (values symbolic); part (A) covers all cell counts",
    "QuasiUniformGrid requires even cell counts (documented); for odd counts only U and R exist and are compared",
]
MIN_OBLIGATIONS = {"quick": 950, "thorough": 2000}
LEVEL_TEXT = "Deductive proof that the uniform policy, the quasi-uniform policy with equal spacings and the explicit equally spaced rectilinear grid resolve to field-wise equal solver grids and configurations (all cell counts for the edge arrays; enumerated cell counts for the constructor-derived fields), from which identical simulations follow by determinism"
LEVEL_NOTE = "real arithmetic; the step from equal configurations to equal runs is a stated determinism argument; constructor-derived fields size-bounded"
AXIOMS = NP.AXIOMS
EXPLANATION = (
    "Three worker jobs bundle the member sessions (obligation names are '<member>:<clause>'): A/U, A/Ru, A/Q (symbolic cell counts, spacing, centre; "
    "constructor replaced by a recorder) and policy_level; B/frame_check and B/n<shape> for the enumerated cell-count triples "
    "(2,2,2),(2,4,2),(4,2,6),(1,3,2),(3,1,1),(5,2,3) (thorough: +6) with the real constructor and the real _resolve_grid_from_volume; "
    "C/forward, C/backward (metric factors on equal widths when the non-uniform path is forced, symbolic cell counts)."
)

GRID = "fdtdx.core.grid"


def _inputs(inp, shape_mode):
    if shape_mode == "sym":
        ns = tuple(sym_int(f"n{a}", lo=1) for a in range(3))
    else:
        ns = tuple(shape_mode)
    for a, n in enumerate(ns):
        inp.scalar(f"n{a}", n)
    s = inp.scalar("spacing", sym_real("s", lo_strict=0))
    ctr = tuple(inp.scalar(f"center{a}", sym_real(f"ctr{a}")) for a in range(3))
    return ns, s, ctr


def _explicit_edges(ns, s, ctr):
    """the explicit description R: edges_a[i] = ctr_a - n_a*s/2 + i*s, i = 0..n_a"""
    out = []
    for a in range(3):
        lo = ctr[a] - ns[a] * s / 2
        out.append(SymArray((ns[a] + 1,), (lambda idx, lo=lo: lo + A._wrap_idx(idx[0]) * s), "real"))
    return out


def _policies(s, ctr):
    from fdtdx.core.grid import QuasiUniformGrid, UniformGrid

    U = UniformGrid(spacing=s, center=ctr)
    Q = QuasiUniformGrid(dx=s, dy=s, dz=s, center=ctr)
    return U, Q


class _Recorder:
    """stands in for RectilinearGrid.__post_init__ in part (A)"""

    def __init__(self):
        self.made = []

    def install(self):
        import fdtdx.core.grid as G

        self._orig = G.RectilinearGrid.__post_init__
        rec = self

        def post_init(obj):
            rec.made.append((obj.x_edges, obj.y_edges, obj.z_edges))

        G.RectilinearGrid.__post_init__ = post_init

    def remove(self):
        import fdtdx.core.grid as G

        G.RectilinearGrid.__post_init__ = self._orig


def _edges_all_sizes(which):
    """part (A) for one description: which in {'U','Ru','Q'}"""

    def body(c, inp):
        from fdtdx.core.grid import RectilinearGrid

        ns, s, ctr = _inputs(inp, "sym")
        inp.note("call", {"part": "A", "description": which})
        U, Q = _policies(s, ctr)
        spec = _explicit_edges(ns, s, ctr)
        rec = _Recorder()
        rec.install()
        try:
            c.cover("pre")
            if which == "U":
                U.resolve(ns)
            elif which == "Ru":
                RectilinearGrid.uniform(shape=ns, spacing=s, center=ctr)
            else:
                Q.resolve(ns)
        finally:
            rec.remove()
        c.prove(f"{which}/post:constructs_exactly_one_grid", len(rec.made) == 1)
        if which == "Q":
            for a in range(3):
                c.prove(f"Q/returns_only_for_even_counts[axis{a}]", ns[a] % 2 == 0)
        for a in range(3):
            got = A.asarray(rec.made[0][a])
            prove_arrays_equal(f"{which}/post:edges_equal_explicit_equally_spaced_edges[axis{a}]", got, spec[a])
            i = SymNum(ctx().fresh_int("i"))
            hy = [zbool(i >= 0), zbool(i <= ns[a])]
            c.prove(f"{which}/post:edge_i_minus_edge_0_is_i*s[axis{a}]", got.at_index((A._raw_index(i),)) - got.at_index((0,)) == i * s, extra_hyps=hy)
            c.prove(f"{which}/post:domain_centred[axis{a}]", got.at_index((0,)) + got.at_index((A._raw_index(ns[a]),)) == 2 * ctr[a])

    def on_exc(c, exc):
        ns = [c.inputs.scalars[f"n{a}"] for a in range(3)]
        odd = A._vor(A._vor(ns[0] % 2 != 0, ns[1] % 2 != 0), ns[2] % 2 != 0)
        c.prove(f"{which}/raises_only_ValueError_and_only_Q_on_an_odd_count", A._vand(isinstance(exc, ValueError) and which == "Q", odd))

    return body, on_exc


def _policy_level(c, inp):
    """what the unresolved descriptions answer before placement"""
    from fdtdx import constants
    from fdtdx.config import SimulationConfig

    ns, s, ctr = _inputs(inp, (2, 2, 2))
    inp.note("call", {"part": "policy"})
    U, Q = _policies(s, ctr)
    cf = inp.scalar("courant_factor", sym_real("cf", lo_strict=0))
    c.cover("pre")
    for a in range(3):
        c.prove(f"Q.axis_spacing[{a}]==U.spacing", Q.axis_spacing(a) == U.spacing)
    c.prove("is_uniform_agree", U.is_uniform is True and bool(Q.is_uniform) is True)
    c.prove("min_spacing_agree", Q.min_spacing == U.min_spacing)
    cfgs = []
    for g in (U, Q):
        cfg = SimulationConfig(time=1e-15, grid=U, backend="cpu")
        cfg.__dict__["grid"] = g
        cfg.__dict__["courant_factor"] = cf
        cfgs.append(cfg)
    cu, cq = cfgs
    c.prove("config.time_step_duration_agree", cu.time_step_duration == cq.time_step_duration)
    c.prove("config.uniform_spacing_agree", cu.uniform_spacing() == cq.uniform_spacing())
    c.prove("config.uniform_spacing_is_s", cu.uniform_spacing() == s)
    c.prove("config.has_nonuniform_grid_False", cu.has_nonuniform_grid is False and cq.has_nonuniform_grid is False)
    c.prove("config.resolved_grid_None_before_placement", cu.resolved_grid is None and cq.resolved_grid is None)
    c.prove("config.time_step_is_courant_number*s/c", cu.time_step_duration * constants.c == cu.courant_number * s)


def _frame_check(c, inp):
    """RectilinearGrid.__post_init__ is a function of its three edge arguments: it reads no attribute of
    self other than the edge arrays it has just stored and no free name other than builtins/numpy/jnp"""
    from fdtdx.core.grid import RectilinearGrid

    src = textwrap.dedent(inspect.getsource(RectilinearGrid.__post_init__))
    fn = ast.parse(src).body[0]
    written = set()
    self_reads = set()
    free = set()
    local = {"self"}
    for node in ast.walk(fn):
        if isinstance(node, ast.Name) and isinstance(node.ctx, ast.Store):
            local.add(node.id)
    for node in ast.walk(fn):
        if isinstance(node, ast.Attribute) and isinstance(node.value, ast.Name) and node.value.id == "self":
            (self_reads if isinstance(node.ctx, ast.Load) else written).add(node.attr)
        elif isinstance(node, ast.Name) and isinstance(node.ctx, ast.Load) and node.id not in local:
            free.add(node.id)
        elif isinstance(node, ast.Call) and isinstance(node.func, ast.Attribute) and node.func.attr == "__setattr__" and len(node.args) >= 2 and isinstance(node.args[1], ast.Constant):
            written.add(node.args[1].value)
    inp.note("frame", {"self_reads": sorted(self_reads), "free": sorted(free), "written": sorted(written)})
    c.prove("__post_init__/frame:reads_only_the_edge_fields_of_self", self_reads <= {"x_edges", "y_edges", "z_edges"})
    c.prove("__post_init__/frame:free_names_are_builtins_or_array_libraries", free <= {"object", "jnp", "np", "enumerate", "ValueError", "bool", "tuple", "float", "zip", "abs", "len", "range", "min", "max", "int"})
    c.prove("__post_init__/frame:writes_every_derived_field", {"_cell_widths", "_min_spacings", "_is_uniform", "_uniform_spacing"} <= written)
    fields = set(getattr(RectilinearGrid, "__dataclass_fields__", {}) or {})
    if not fields:
        try:
            import pytreeclass as tc

            fields = {f.name for f in tc.fields(RectilinearGrid)}
        except Exception:  # noqa: BLE001
            fields = set()
    c.prove("RectilinearGrid/frame:no_field_outside_the_compared_ones", fields == {"x_edges", "y_edges", "z_edges", "_min_spacings", "_is_uniform", "_uniform_spacing", "_cell_widths"})


def _resolved_equal(shape):
    """part (B) for one enumerated shape"""
    even = all(n % 2 == 0 for n in shape)

    def body(c, inp):
        import fdtdx.fdtd.initialization as I
        from fdtdx import constants
        from fdtdx.config import SimulationConfig
        from fdtdx.core.grid import RectilinearGrid, UniformGrid
        from fdtdx.objects.static_material.static import SimulationVolume

        ns, s, ctr = _inputs(inp, shape)
        inp.note("call", {"part": "B", "shape": list(shape)})
        U, Q = _policies(s, ctr)
        spec = _explicit_edges(ns, s, ctr)
        cf = inp.scalar("courant_factor", sym_real("cf", lo_strict=0))
        c.cover("pre")
        vol = SimulationVolume(partial_grid_shape=tuple(ns), name="volume")

        def config_with(grid):
            cfg = SimulationConfig(time=1e-15, grid=UniformGrid(spacing=1.0), backend="cpu")
            cfg.__dict__["grid"] = grid
            cfg.__dict__["courant_factor"] = cf
            return cfg

        R = RectilinearGrid(x_edges=spec[0], y_edges=spec[1], z_edges=spec[2])
        descr = {"U": U, "R": R, "Ru": RectilinearGrid.uniform(shape=ns, spacing=s, center=ctr)}
        if even:
            descr["Q"] = Q
        resolved = {}
        for k, g in descr.items():
            cfg = I._resolve_grid_from_volume([vol], config_with(g))
            resolved[k] = cfg
            c.prove(f"{k}/post:resolves_to_RectilinearGrid", type(cfg.grid) is RectilinearGrid and cfg.resolved_grid is cfg.grid)
            c.prove(f"{k}/post:shape", tuple(cfg.grid.shape) == tuple(ns))
        c.prove("R/post:explicit_grid_untouched_by_resolution", resolved["R"].grid is R and resolved["Ru"].grid is descr["Ru"])
        if not even:
            try:
                Q.resolve(ns)
                c.prove("Q/odd_count_rejected", False)
            except ValueError:
                c.prove("Q/odd_count_rejected", True)
        ref = resolved["R"]
        sp0 = spec[0].at_index((1,)) - spec[0].at_index((0,))
        for k, cfg in resolved.items():
            g = cfg.grid
            for a in range(3):
                prove_arrays_equal(f"{k}/post:edges_equal_R[axis{a}]", g.edges(a), ref.grid.edges(a))
                prove_arrays_equal(f"{k}/post:cell_widths_equal_R[axis{a}]", g.cell_widths(a), ref.grid.cell_widths(a))
                prove_arrays_equal(f"{k}/post:cell_widths_are_s[axis{a}]", g.cell_widths(a), A.full((ns[a],), s, "real"))
                c.prove(f"{k}/post:min_spacing_is_s[axis{a}]", g.min_spacings[a] == s)
            c.prove(f"{k}/post:is_uniform", g.is_uniform is True)
            if g.is_uniform is not True:
                continue
            c.prove(f"{k}/post:uniform_spacing_equal_R", g.uniform_spacing == ref.grid.uniform_spacing)
            c.prove(f"{k}/post:uniform_spacing_is_rounded_s", g.uniform_spacing == apply_uf("round_decimals", s, 14))
            c.prove(f"{k}/post:min_spacing_equal_R", g.min_spacing == ref.grid.min_spacing)
            c.prove(f"{k}/post:config.has_nonuniform_grid_False", cfg.has_nonuniform_grid is False)
            c.prove(f"{k}/post:config.time_step_duration_equal_R", cfg.time_step_duration == ref.time_step_duration)
            c.prove(f"{k}/post:config.uniform_spacing_equal_R", cfg.uniform_spacing() == ref.uniform_spacing())
            c.prove(f"{k}/post:config.courant_number_equal_R", cfg.courant_number == ref.courant_number)
            c.prove(f"{k}/post:config.time_step_is_courant_number*spacing/c", cfg.time_step_duration * constants.c == cfg.courant_number * g.uniform_spacing)
            # metric factors the curl reads
            from fdtdx.core.physics.curl import _metric_scale

            for a in range(3):
                for st in ("forward", "backward"):
                    c.prove(f"{k}/post:metric_scale_is_1[axis{a},{st}]", _metric_scale(cfg, a, tuple(ns), st) == 1.0)

    return body


def _metric_scale_sanity(stencil):
    """(C): grid of equal widths s but flagged non-uniform -> metric factors are all 1"""

    def body(c, inp):
        from fdtdx.config import SimulationConfig
        from fdtdx.core.grid import RectilinearGrid, UniformGrid
        from fdtdx.core.physics.curl import _metric_scale

        ns, s, ctr = _inputs(inp, "sym")
        inp.note("call", {"part": "C", "stencil": stencil})
        cf = inp.scalar("courant_factor", sym_real("cf", lo_strict=0))
        es = _explicit_edges(ns, s, ctr)
        g = object.__new__(RectilinearGrid)
        ws = tuple(A.full((n,), s, "real") for n in ns)
        g.__dict__.update(x_edges=es[0], y_edges=es[1], z_edges=es[2], _cell_widths=ws, _min_spacings=(s, s, s), _is_uniform=False, _uniform_spacing=None)
        cfg = SimulationConfig(time=1e-15, grid=UniformGrid(spacing=1.0), backend="cpu")
        cfg.__dict__["grid"] = g
        cfg.__dict__["courant_factor"] = cf
        c.cover("pre")
        c.prove("has_nonuniform_grid_on_this_path", cfg.has_nonuniform_grid is True)
        for a in range(3):
            sc = _metric_scale(cfg, a, tuple(ns), stencil)
            want = [1, 1, 1]
            want[a] = ns[a]
            c.prove(f"metric_scale/post:rank3[axis{a}]", sc.ndim == 3)
            for b in range(3):
                c.prove(f"metric_scale/post:shape[axis{a},{b}]", sc.shape[b] == want[b])
            i = SymNum(ctx().fresh_int("i"))
            idx = [0, 0, 0]
            idx[a] = A._raw_index(i)
            c.prove(f"metric_scale/post:identically_one_on_equal_widths[axis{a}]", sc.at_index(tuple(idx)) == 1, extra_hyps=[zbool(i >= 0), zbool(i < ns[a])])

    return body


def _no_exception(c, exc):
    """none of these sessions may raise on a feasible path (equally spaced input is always accepted)"""
    c.prove(f"no_exception_on_equally_spaced_input[{type(exc).__name__}]", False)


SHAPES_B = [(2, 2, 2), (2, 4, 2), (4, 2, 6), (1, 3, 2), (3, 1, 1), (5, 2, 3)]
SHAPES_B_THOROUGH = [(6, 4, 8), (8, 2, 2), (2, 2, 10), (7, 1, 4), (1, 1, 1), (3, 3, 3)]


def tasks(tier, seed):
    groups = {"A_edges_all_sizes": [], "B_resolved_grids_equal": [], "C_metric_scale_sanity": []}
    for which in ("U", "Ru", "Q"):
        b, h = _edges_all_sizes(which)
        groups["A_edges_all_sizes"].append((f"A/{which}", b, h))
    groups["A_edges_all_sizes"].append(("policy_level", _policy_level, _no_exception))
    groups["B_resolved_grids_equal"].append(("B/frame_check", _frame_check, _no_exception))
    for shp in SHAPES_B + (SHAPES_B_THOROUGH if tier == "thorough" else []):
        groups["B_resolved_grids_equal"].append(("B/n" + "".join(map(str, shp)), _resolved_equal(shp), _no_exception))
    for st in ("forward", "backward"):
        groups["C_metric_scale_sanity"].append((f"C/{st}", _metric_scale_sanity(st), _no_exception))
    return {k: P37.group_task(ms, modules=MODULES) for k, ms in groups.items()}


def _real_case(shape, s, ctr, cf=0.99):
    """resolve the three descriptions with the REAL code under real JAX; -> list of deviations"""
    import jax.numpy as jnp
    import numpy as np

    import fdtdx.fdtd.initialization as I
    from fdtdx.config import SimulationConfig
    from fdtdx.core.grid import QuasiUniformGrid, RectilinearGrid, UniformGrid
    from fdtdx.core.physics.curl import _metric_scale
    from fdtdx.objects.static_material.static import SimulationVolume

    vol = SimulationVolume(partial_grid_shape=tuple(shape), name="volume")
    explicit = [jnp.asarray(ctr[a] - shape[a] * s / 2.0 + s * np.arange(shape[a] + 1)) for a in range(3)]
    descr = {
        "R": RectilinearGrid(x_edges=explicit[0], y_edges=explicit[1], z_edges=explicit[2]),
        "U": UniformGrid(spacing=s, center=tuple(ctr)),
        "Ru": RectilinearGrid.uniform(shape=tuple(shape), spacing=s, center=tuple(ctr)),
    }
    even = all(n % 2 == 0 for n in shape)
    out = []
    if even:
        descr["Q"] = QuasiUniformGrid(dx=s, dy=s, dz=s, center=tuple(ctr))
    else:
        try:
            QuasiUniformGrid(dx=s, dy=s, dz=s, center=tuple(ctr)).resolve(tuple(shape))
            out.append("Q accepted an odd cell count")
        except ValueError:
            pass
    cfgs = {k: I._resolve_grid_from_volume([vol], SimulationConfig(time=1e-15, grid=g, backend="cpu", courant_factor=cf, dtype=jnp.float64)) for k, g in descr.items()}
    ref = cfgs["R"]
    scale = abs(s) + max(abs(float(x)) for x in ctr) + max(shape) * abs(s)
    for k, cfg in cfgs.items():
        g = cfg.grid
        if tuple(g.shape) != tuple(shape):
            out.append(f"{k}: shape {g.shape}")
            continue
        for a in range(3):
            d = float(np.max(np.abs(np.asarray(g.edges(a)) - np.asarray(ref.grid.edges(a)))))
            if d > 1e-9 * scale:
                out.append(f"{k}: edges axis {a} differ from the explicit grid by {d}")
            d = float(np.max(np.abs(np.asarray(g.cell_widths(a)) - s)))
            if d > 1e-9 * scale:
                out.append(f"{k}: cell widths axis {a} differ from s by {d}")
        if not g.is_uniform or cfg.has_nonuniform_grid:
            out.append(f"{k}: not flagged uniform")
        elif abs(g.uniform_spacing - ref.grid.uniform_spacing) > 1e-9 * abs(s):
            out.append(f"{k}: uniform_spacing {g.uniform_spacing} vs {ref.grid.uniform_spacing}")
        if abs(cfg.time_step_duration - ref.time_step_duration) > 1e-9 * abs(ref.time_step_duration):
            out.append(f"{k}: time_step_duration {cfg.time_step_duration} vs {ref.time_step_duration}")
        for a in range(3):
            for st in ("forward", "backward"):
                if _metric_scale(cfg, a, tuple(shape), st) != 1.0:
                    out.append(f"{k}: metric scale axis {a} {st} is not 1")
    return out


def replay(key, obligation, witness):
    """real resolution of the three descriptions on the witness shape/spacing/centre, then on stock cases"""
    sc = dict((witness or {}).get("scalars") or {})
    cases = []
    try:
        shape = tuple(int(sc[f"n{a}"]) for a in range(3))
        if all(1 <= n <= 64 for n in shape):
            s = float(sc["spacing"])
            cases.append((shape, s if s > 0 else 1.0, tuple(float(sc[f"center{a}"]) for a in range(3))))
    except Exception:  # noqa: BLE001
        pass
    cases += [((2, 4, 6), 1.0, (0.0, 0.0, 0.0)), ((4, 2, 2), 0.25, (1.0, -2.0, 0.5)), ((3, 1, 5), 2.0, (0.5, 0.0, -1.0)), ((2, 2, 2), 1e-8, (0.0, 0.0, 0.0))]
    for shape, s, ctr in cases:
        try:
            dev = _real_case(shape, s, ctr)
        except Exception as ex:  # noqa: BLE001
            return True, f"real code raised {ex!r} for shape={shape} spacing={s} center={ctr}"
        if dev:
            return True, f"shape={shape} spacing={s} center={ctr}: " + "; ".join(dev[:4])
    return False, f"the three descriptions resolved to the same grid data on the real code for {len(cases)} cases"
