"""C21  Design symmetry transforms produce symmetric designs.

Contract of every transform T in fdtdx.objects.device.parameters.symmetries (called on the REAL
`__call__` with a fully symbolic array v of symbolic shape), where g is the reflection / rotation /
transposition of the index set that the transform's documentation names (written down here from the
property text, as an index map, independently of the code):

    shape      T(v).shape == v.shape
    invariant  T(v)[g(i)] == T(v)[i]                       for every index i
    fixed      v symmetric (v o g == v)  ==>  T(v) == v    (symmetric inputs generated as
               s = (w + w o g)/2 for arbitrary w: every symmetric array has this form (take w = s) and,
               g being an involution (obligation `g/involution`), every array of this form is symmetric)
    idempotent T(T(v)) == T(v)
    mean       mean(T(v)) == mean(v)

`mean` needs a sum over symbolic axes, which the engine does not have.  It is established in two ways:
  * pairing lemma (all shapes): if g is an involution of the index set (obligations `g/in_range`,
    `g/involution`) and 2*T(v)[i] == v[i] + v[g(i)] for every i (obligation `mean/pairing`), then
    sum_i T(v)[i] = (sum_i v[i] + sum_i v[g(i)])/2 = sum_i v[i]  (re-indexing a finite sum by a bijection).
    The last step is a textbook lemma, stated here, not machine-checked.
  * directly, `jnp.mean`-style, for every concrete shape with extents <= 3 (<= 4 thorough) and symbolic
    values (obligations `mean/direct`).

Preconditions.  2D transforms: exactly one axis of the 3D parameter array has extent 1 (this is what
ParameterTransformation.get_input_shape enforces for `_all_arrays_2d` transforms); diagonal transforms:
the two transposed extents are equal (property text: "square where required").
"""

from __future__ import annotations

import itertools

import z3

from vc import array as A
from vc.array import SymArray
from vc.core import ctx, v_eq, zbool
from vc.harness import Task
from vc.obl import index_cases, prove_arrays_equal, prove_same_shape, sym_int

ID = "C21"
LEVEL = "proof"
TECHNIQUE = "symbolic execution of the real transform __call__ on a symbolic array of symbolic shape; pointwise invariance / fixed-point / idempotence obligations (z3); mean via involution pairing premises + direct sums on enumerated small shapes"
MODULES = ["fdtdx.objects.device.parameters.symmetries"]
FILES = ["src/fdtdx/objects/device/parameters/symmetries.py"]
FUNCTIONS = [
    "fdtdx.objects.device.parameters.symmetries.HorizontalSymmetry2D.__call__",
    "fdtdx.objects.device.parameters.symmetries.VerticalSymmetry2D.__call__",
    "fdtdx.objects.device.parameters.symmetries.PointSymmetry2D.__call__",
    "fdtdx.objects.device.parameters.symmetries.DiagonalSymmetry2D.__call__ (both diagonals)",
    "fdtdx.objects.device.parameters.symmetries.HorizontalSymmetry3D.__call__ (mirror_axis x, y)",
    "fdtdx.objects.device.parameters.symmetries.VerticalSymmetry3D.__call__",
    "fdtdx.objects.device.parameters.symmetries.PointSymmetry3D.__call__",
    "fdtdx.objects.device.parameters.symmetries.DiagonalSymmetry3D.__call__ (planes xy, xz, yz; both diagonals)",
]
INLINED = []
STUBS = []
ASSUMPTIONS = [
    "2D transforms: exactly one axis of the (a,b,c) parameter array has extent 1 (call-site check in ParameterTransformation.get_input_shape); that axis is the one removed",
    "diagonal transforms: the two transposed extents are equal ('square where required')",
    "mean preservation for ALL shapes rests on the re-indexing lemma sum_i f(g(i)) = sum_i f(i) for a bijection g of a finite index set (stated, not machine-checked); its premises are proved; the equality of the sums itself is proved directly only for the enumerated concrete shapes (extents <= 3 quick, <= 4 thorough)",
    "which reflection each transform stands for is read from the property text / class documentation: 2D horizontal = first remaining axis, vertical = second remaining axis, point = both, diagonal = transposition (anti-diagonal: (i,j) -> (n-1-j, n-1-i)); 3D horizontal = axis x or y, vertical = axis z, point = all axes, diagonal = transposition within the named plane",
]
MIN_OBLIGATIONS = {"quick": 400, "thorough": 600}
LEVEL_TEXT = (
    "Deductive proof over all array shapes (symbolic extents; singleton axis at every position for the 2D transforms) and all array values, "
    "for each of the 14 transform/option combinations, of exact invariance under the named reflection/rotation/transposition, the fixed-point "
    "property on symmetric inputs, idempotence, and the pointwise premises of mean preservation; the mean equality itself is additionally "
    "proved for all values on every concrete shape with extents <= 3"
)
LEVEL_NOTE = (
    "real arithmetic; mean preservation: for all shapes via the involution pairing argument (premises proved pointwise, the finite-sum re-indexing "
    "step is a stated lemma), and directly (sum over concrete axes, symbolic values) for enumerated small shapes; option classes (14) enumerated"
)


# ---------------------------------------------------------------------------------------
# the symmetry maps g (specification; index tuple -> index tuple)
# ---------------------------------------------------------------------------------------


def _refl(axes):
    def g(idx, shape):
        return tuple(shape[k] - 1 - i if k in axes else i for k, i in enumerate(idx))

    return g


def _swap(a, b, anti):
    def g(idx, shape):
        out = list(idx)
        if anti:
            out[a] = shape[b] - 1 - idx[b]
            out[b] = shape[a] - 1 - idx[a]
        else:
            out[a], out[b] = idx[b], idx[a]
        return tuple(out)

    return g


def _g2d(which, p):
    """2D transforms act on the two axes that remain after removing the singleton axis p"""
    q0, q1 = [k for k in range(3) if k != p]
    return {
        "horizontal": _refl((q0,)),
        "vertical": _refl((q1,)),
        "point": _refl((q0, q1)),
        "diag_main": _swap(q0, q1, False),
        "diag_anti": _swap(q0, q1, True),
    }[which]


_AX = {"x": 0, "y": 1, "z": 2}

# key -> (class name, constructor options, dimensionality, spec selector, axes that must be equal)
VARIANTS = {
    "2d/horizontal": ("HorizontalSymmetry2D", {}, 2, "horizontal"),
    "2d/vertical": ("VerticalSymmetry2D", {}, 2, "vertical"),
    "2d/point": ("PointSymmetry2D", {}, 2, "point"),
    "2d/diagonal_main": ("DiagonalSymmetry2D", {"min_min_to_max_max": True}, 2, "diag_main"),
    "2d/diagonal_anti": ("DiagonalSymmetry2D", {"min_min_to_max_max": False}, 2, "diag_anti"),
    "3d/horizontal_x": ("HorizontalSymmetry3D", {"mirror_axis": "x"}, 3, _refl((0,))),
    "3d/horizontal_y": ("HorizontalSymmetry3D", {"mirror_axis": "y"}, 3, _refl((1,))),
    "3d/vertical": ("VerticalSymmetry3D", {}, 3, _refl((2,))),
    "3d/point": ("PointSymmetry3D", {}, 3, _refl((0, 1, 2))),
}
for _pl in ("xy", "xz", "yz"):
    for _main in (True, False):
        VARIANTS[f"3d/diagonal_{_pl}_{'main' if _main else 'anti'}"] = (
            "DiagonalSymmetry3D",
            {"diagonal_plane": _pl, "min_min_to_max_max": _main},
            3,
            _swap(_AX[_pl[0]], _AX[_pl[1]], not _main),
        )


def _square_axes(key, p=None):
    """pair of axes that the precondition 'square' equates (None if no such precondition)"""
    if "diagonal" not in key:
        return None
    if key.startswith("2d"):
        return tuple(k for k in range(3) if k != p)
    pl = key.split("_")[1]
    return _AX[pl[0]], _AX[pl[1]]


def _make(key):
    import fdtdx.objects.device.parameters.symmetries as S

    cls, opts, _, _ = VARIANTS[key]
    return getattr(S, cls)(**opts)


def _apply(T, v):
    out = T({"p": v})
    if not isinstance(out, dict) or set(out) != {"p"}:
        ctx().prove("result_is_dict_with_same_keys", False)
        raise A.ShapeError("transform did not return {'p': array}")
    return A.asarray(out["p"])


def _first_singleton(shape):
    """spec-level choice of the removed axis (forks on symbolic extents)"""
    for k, d in enumerate(shape):
        if A.dim_is(d, 1):
            return k
    return None


def _setup(c, inp, key, shape):
    """preconditions + spec map g for this variant on `shape`; returns g (idx -> idx) or None if the
    shape is outside the property's domain (concrete-shape enumeration only)"""
    _, _, dim, sel = VARIANTS[key]
    p = None
    if dim == 2:
        sym = [d for d in shape if not isinstance(d, int)]
        if sym:
            c.assume(z3.Or(*[zbool(v_eq(d, 1)) for d in shape]))
        p = _first_singleton(shape)
        if p is None:
            return None
        for k in range(3):
            if k != p:
                if isinstance(shape[k], int):
                    if shape[k] == 1:
                        return None
                else:
                    c.assume(z3.Not(zbool(v_eq(shape[k], 1))))
        gspec = _g2d(sel, p)
    else:
        gspec = sel
    sq = _square_axes(key, p)
    if sq is not None:
        a, b = sq
        if isinstance(shape[a], int) and isinstance(shape[b], int):
            if shape[a] != shape[b]:
                return None
        else:
            c.assume(zbool(v_eq(shape[a], shape[b])))
    inp.note("variant", key)
    return lambda idx: gspec(tuple(idx), shape)


def _compose(arr, g):
    """arr o g"""
    return SymArray(arr.shape, lambda idx: arr.at_index(tuple(A._raw_index(x) for x in g(tuple(A._wrap_idx(i) for i in idx)))), arr.kind)


def _prove_g_is_involution(c, shape, g):
    for label, idx, hyps in index_cases(shape):
        w = tuple(A._wrap_idx(i) for i in idx)
        gi = g(w)
        rng = True
        for k, x in enumerate(gi):
            rng = A._vand(rng, A._vand(x >= 0, x < shape[k]))
        c.prove(f"g/in_range[{label}]", rng, extra_hyps=hyps)
        ggi = g(gi)
        inv = True
        for x, y in zip(ggi, w):
            inv = A._vand(inv, v_eq(x, y))
        c.prove(f"g/involution[{label}]", inv, extra_hyps=hyps)


def _contract(key):
    def body(c, inp):
        shape = tuple(sym_int(f"n{k}", lo=1) for k in range(3))
        for k, d in enumerate(shape):
            inp.scalar(f"n{k}", d)
        g = _setup(c, inp, key, shape)
        c.cover("pre")
        T = _make(key)
        v = A.fresh_array("v", shape)
        inp.array("v", v)
        _prove_g_is_involution(c, shape, g)

        out = _apply(T, v)
        if not prove_same_shape("shape", out, v):
            return
        out = SymArray(shape, out.at_index, out.kind)  # same extents, proved above
        prove_arrays_equal("invariant", _compose(out, g), out)
        # mean: pairing premise
        prove_arrays_equal("mean/pairing", out * 2, v + _compose(v, g))
        # idempotence
        out2 = _apply(T, out)
        prove_arrays_equal("idempotent", out2, out)
        # fixed point on symmetric inputs s = (w + w o g)/2
        s = (v + _compose(v, g)) / 2
        prove_arrays_equal("fixed/input_is_symmetric", _compose(s, g), s)
        outs = _apply(T, s)
        prove_arrays_equal("fixed", outs, s)

    return body


def _shapes(key, nmax):
    _, _, dim, _ = VARIANTS[key]
    out = []
    for sh in itertools.product(range(1, nmax + 1), repeat=3):
        if dim == 2 and sum(1 for d in sh if d == 1) != 1:
            continue
        out.append(sh)
    return out


def _mean_direct(key, nmax):
    def body(c, inp):
        n_done = 0
        for sh in _shapes(key, nmax):
            g = _setup(c, inp, key, sh)
            if g is None:
                continue
            T = _make(key)
            v = A.fresh_array("v", sh)
            out = _apply(T, v)
            lab = "x".join(map(str, sh))
            if not prove_same_shape(f"mean/direct/shape[{lab}]", out, v):
                continue
            n = sh[0] * sh[1] * sh[2]
            so = sum(out.at_index(i) for i in itertools.product(*[range(d) for d in sh]))
            sv = sum(v.at_index(i) for i in itertools.product(*[range(d) for d in sh]))
            inp.note("shape", list(sh))
            c.prove(f"mean/direct[{lab}]", v_eq(so / n, sv / n))
            n_done += 1
        c.prove("mean/direct/enumeration_nonempty", n_done > 0)

    return body


def _bad_domain_error(c, e):
    # inside the stated domain no transform may raise
    c.prove(f"no_exception_in_domain({type(e).__name__})", False)


def tasks(tier, seed):
    out = {}
    nmax = 4 if tier == "thorough" else 3
    for key in VARIANTS:
        out[f"contract/{key}"] = Task(_contract(key), on_exception=_bad_domain_error, max_paths=64)
        out[f"mean_direct/{key}"] = Task(_mean_direct(key, nmax), on_exception=_bad_domain_error, max_paths=64)
    return out


# ---------------------------------------------------------------------------------------
# replay on the real code under real JAX
# ---------------------------------------------------------------------------------------


def _np_g(key, shape):
    """numpy version of the spec: index arrays of g on `shape`"""
    import numpy as np

    _, _, dim, sel = VARIANTS[key]
    p = None
    if dim == 2:
        p = list(shape).index(1)
        gspec = _g2d(sel, p)
    else:
        gspec = sel
    grids = np.meshgrid(*[np.arange(d) for d in shape], indexing="ij")
    return gspec(tuple(grids), tuple(shape))


def replay(key, obligation, witness):
    """real transform, real JAX (float64): evaluate the four properties on the witness array (and on a
    few seeded random arrays of the witness shape)"""
    import jax.numpy as jnp
    import numpy as np

    from vc.harness import witness_arrays_to_numpy

    vkey = key.split("/", 1)[1]
    if vkey not in VARIANTS:
        return False, f"unknown variant {vkey}"
    _, _, dim, _ = VARIANTS[vkey]
    sc = (witness or {}).get("scalars", {})
    notes = (witness or {}).get("notes", {})
    shapes = []
    if all(isinstance(sc.get(f"n{k}"), int) for k in range(3)):
        shapes.append(tuple(max(1, int(sc[f"n{k}"])) for k in range(3)))
    if isinstance(notes.get("shape"), list):
        shapes.append(tuple(notes["shape"]))
    m = __import__("re").search(r"\[(\d+)x(\d+)x(\d+)\]", obligation or "")
    if m:
        shapes.insert(0, tuple(int(x) for x in m.groups()))
    # fall-back shapes inside the domain
    shapes += [(3, 3, 1), (3, 1, 3), (1, 3, 3)] if dim == 2 else [(3, 3, 3), (2, 2, 2)]
    wa = witness_arrays_to_numpy(witness or {})
    T = _make(vkey)
    rng = np.random.default_rng(0)
    details = []
    for sh in shapes:
        if sh[0] * sh[1] * sh[2] > 4096:
            # solver models often pick astronomically large extents: shrink, keeping singleton axes
            sh = tuple(1 if d == 1 else 2 + d % 3 for d in sh)
            sq0 = _square_axes(vkey, list(sh).index(1) if (dim == 2 and 1 in sh) else None)
            if sq0 is not None:
                sh = tuple(sh[sq0[0]] if k == sq0[1] else d for k, d in enumerate(sh))
        if dim == 2 and sum(1 for d in sh if d == 1) != 1:
            continue
        sq = _square_axes(vkey, list(sh).index(1) if dim == 2 else None)
        if sq is not None and sh[sq[0]] != sh[sq[1]]:
            continue
        cands = []
        if "v" in wa and wa["v"].shape == tuple(sh):
            cands.append(wa["v"])
        cands += [rng.normal(size=sh) for _ in range(3)]
        gi = _np_g(vkey, sh)
        for v in cands:
            try:
                out = np.asarray(T({"p": jnp.asarray(v)})["p"])
            except Exception as e:  # noqa: BLE001
                return True, f"{vkey} shape={sh}: real transform raised {type(e).__name__}: {e}"
            if out.shape != v.shape:
                return True, f"{vkey} shape={sh}: output shape {out.shape}"
            s = (v + v[gi]) / 2
            outs = np.asarray(T({"p": jnp.asarray(s)})["p"])
            out2 = np.asarray(T({"p": jnp.asarray(out)})["p"])
            errs = {
                "invariant": float(np.max(np.abs(out[gi] - out))),
                "fixed": float(np.max(np.abs(outs - s))) if outs.shape == s.shape else float("inf"),
                "idempotent": float(np.max(np.abs(out2 - out))) if out2.shape == out.shape else float("inf"),
                "mean": float(abs(out.mean() - v.mean())),
            }
            bad = {k: e for k, e in errs.items() if e > 1e-9}
            details.append(f"{vkey} shape={sh}: {errs}")
            if bad:
                return True, f"{vkey} shape={sh} v={np.round(v, 4).tolist()}: real transform violates {bad}"
    return False, "\n".join(details[:6])
