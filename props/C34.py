"""C34  Symmetric placement keeps the upper half and clips objects consistently.

Contracts (symbolic integers; the 27 symmetry tuples are enumerated)

  validate_symmetric_axis_cells(n)
      raises ValueError  <=>  n < 2 or n odd
  reduce_resolved_slices(slices, object_map, config, volume)
      requires  every object box lies in the volume box with positive extent (post of C26)
      raises ValueError  <=>  some symmetric axis has an odd (or < 2) cell count
      otherwise, with m[a] = vs0 + n/2 on a symmetric axis a (the plane index):
        reduced volume slice  (0, n/2) on symmetric axes, untouched elsewhere; reduced shape alike
        an object is dropped  <=>  it ends at or below the plane on some symmetric axis (s1 <= m)
        a surviving object's slice is its intersection with the kept half, in reduced coordinates
            (max(s0, m) - m, s1 - m); it lies inside the reduced volume with positive extent;
        its recorded unclipped extent is (s0 - m, s1 - m); non-symmetric axes are untouched;
        dropped objects appear in neither dictionary; the volume's unclipped extent is (-n/2, n/2)
  make_symmetry_walls(config, reduced_shape, key, existing_names)
      returns exactly one wall per axis with symmetry == -1 (none for 0 / +1), in axis order; each is
      a PerfectElectricConductor on the min face (`axis`, direction '-'), one cell thick on its axis
      and spanning the reduced volume on the others, flagged `_is_symmetry_wall`, with a name that
      is neither in `existing_names` nor used by another wall.

Call site (bounded): the real `fdtdx.place_objects` with `config.symmetry` on enumerated small volumes
and object boxes; the placed objects are compared with the same specification.
"""

from __future__ import annotations

import itertools
import random

from vc.harness import Task

ID = "C34"
LEVEL = "proof"
TECHNIQUE = "symbolic-integer execution of the real reduce_resolved_slices / make_symmetry_walls / validate_symmetric_axis_cells (symmetry tuples enumerated, boxes symbolic), z3 linear integer arithmetic; bounded runs of the real place_objects for the call site"
MODULES = ["fdtdx.fdtd.symmetry", "fdtdx.core.misc"]
FILES = ["src/fdtdx/fdtd/symmetry.py", "src/fdtdx/fdtd/initialization.py", "src/fdtdx/core/misc.py"]
FUNCTIONS = ["fdtdx.fdtd.symmetry.reduce_resolved_slices", "fdtdx.fdtd.symmetry.make_symmetry_walls", "fdtdx.core.misc.validate_symmetric_axis_cells"]
INLINED = ["fdtdx.objects.object.SimulationObject.place_on_grid (called by make_symmetry_walls)"]
STUBS = []
ASSUMPTIONS = [
    "object boxes handed to reduce_resolved_slices lie inside the volume box with positive extent (guaranteed by the bounds check of resolve_object_constraints, property C26)",
    "the call site in place_objects (steps 4-8: slices replaced by the reduced ones, dropped objects skipped, unclipped extent attached, walls appended) is covered by bounded runs of the real place_objects only",
    "reduction of an explicit non-uniform RectilinearGrid (RectilinearGrid.reduce_symmetric) belongs to the grid properties (C37/C38) and is not covered here",
]
MIN_OBLIGATIONS = {"quick": 25000, "thorough": 200000}
LEVEL_TEXT = "Deductive proof over all volume extents, plane positions and object boxes (symbolic integers) for each of the 27 symmetry tuples of the reduction, dropping, clipping, unclipped-extent and wall contracts of the real functions"
LEVEL_NOTE = "symmetry tuples enumerated; the place_objects call site is a bounded stand-in on enumerated small scenes"
BOUNDED_RULE = "bounded part: real fdtdx.place_objects with config.symmetry on enumerated small volumes / object boxes, compared with the contract"

SYMS = list(itertools.product((0, -1, 1), repeat=3))


def _quiet():
    try:
        from loguru import logger

        logger.disable("fdtdx")
    except Exception:  # noqa: BLE001
        pass


def _cfg(sym):
    from fdtdx.config import SimulationConfig
    from fdtdx.core.grid import UniformGrid

    return SimulationConfig(time=1e-15, grid=UniformGrid(spacing=1.0), backend="cpu", symmetry=tuple(sym))


def _validate_contract(c, inp):
    from fdtdx.core.misc import validate_symmetric_axis_cells
    from vc.core import PathAbort, Undecided, Unsupported
    from vc.obl import sym_int

    n = inp.scalar("n", sym_int("n"))
    c.cover("pre")
    try:
        validate_symmetric_axis_cells(n, "x", subject="simulation volume")
        raised = False
    except (PathAbort, Undecided, Unsupported):
        raise
    except ValueError:
        raised = True
    bad = (n < 2) | (n % 2 != 0)
    c.prove("validate/raises<=>odd_or_lt_2", bad if raised else _not(bad))


def _reduce_contract(sym, kinds):
    """kinds: object kinds, 'mat' (UniformMaterialObject) or ('bloch', axis)"""

    def body(c, inp):
        import fdtdx.fdtd.symmetry as S
        from fdtdx.materials import Material
        from fdtdx.objects.boundaries.bloch import BlochBoundary
        from fdtdx.objects.static_material.static import SimulationVolume, UniformMaterialObject
        from vc.core import PathAbort, Undecided, Unsupported, ctx
        from vc.obl import sym_int

        _quiet()
        cfg = _cfg(sym)
        vol = []
        for a in range(3):
            v0 = inp.scalar(f"vs0[{a}]", sym_int(f"vs0_{a}", lo=0))
            v1 = inp.scalar(f"vs1[{a}]", sym_int(f"vs1_{a}"))
            ctx().assume(v0 < v1)
            vol.append((v0, v1))
        objs = {"vol": SimulationVolume(name="vol")}
        slices = {"vol": tuple(vol)}
        for k, kind in enumerate(kinds):
            name = f"o{k}"
            box = []
            for a in range(3):
                s0 = inp.scalar(f"{name}.s0[{a}]", sym_int(f"{name}_s0_{a}"))
                s1 = inp.scalar(f"{name}.s1[{a}]", sym_int(f"{name}_s1_{a}"))
                ctx().assume(vol[a][0] <= s0)
                ctx().assume(s0 < s1)
                ctx().assume(s1 <= vol[a][1])
                box.append((s0, s1))
            slices[name] = tuple(box)
            objs[name] = UniformMaterialObject(name=name, material=Material()) if kind == "mat" else BlochBoundary(name=name, axis=kind[1], direction="+")
        inp.note("symmetry", list(sym))
        c.cover("pre")
        n = [vol[a][1] - vol[a][0] for a in range(3)]
        odd = False
        for a in range(3):
            if sym[a] != 0:
                odd = odd | ((n[a] < 2) | (n[a] % 2 != 0))
        try:
            new, unred, dropped, rshape = S.reduce_resolved_slices(resolved_slices=dict(slices), object_map=objs, config=cfg, volume_name="vol")
        except (PathAbort, Undecided, Unsupported):
            raise
        except ValueError:
            c.prove("reduce/raises_only_for_odd_or_too_small_symmetric_axis", odd)
            return
        c.prove("reduce/even_count_required", _not(odd))
        m = [vol[a][0] + n[a] // 2 if sym[a] != 0 else None for a in range(3)]
        for a in range(3):
            if sym[a] != 0:
                c.prove(f"reduce/volume_keeps_upper_half[{a}]", (new["vol"][a][0] == 0) & (new["vol"][a][1] * 2 == n[a]))
                c.prove(f"reduce/reduced_shape[{a}]", rshape[a] * 2 == n[a])
                c.prove(f"reduce/volume_unclipped_extent[{a}]", (unred["vol"][a][0] * 2 == -n[a]) & (unred["vol"][a][1] * 2 == n[a]))
                c.prove(f"reduce/kept_half_is_upper[{a}]", (m[a] + new["vol"][a][1] == vol[a][1]))
            else:
                c.prove(f"reduce/volume_untouched[{a}]", _eq(new["vol"][a], vol[a]) & _eq(unred["vol"][a], vol[a]))
                c.prove(f"reduce/reduced_shape[{a}]", rshape[a] == n[a])
        for k, _ in enumerate(kinds):
            name = f"o{k}"
            box = slices[name]
            below = False
            for a in range(3):
                if sym[a] != 0:
                    below = below | (box[a][1] <= m[a])
            is_dropped = name in dropped
            c.prove(f"reduce/{name}:dropped<=>entirely_in_lower_half", below if is_dropped else _not(below))
            c.prove(f"reduce/{name}:dropped_objects_are_removed", is_dropped == (name not in new) and is_dropped == (name not in unred))
            if is_dropped:
                continue
            for a in range(3):
                got, un = new[name][a], unred[name][a]
                if sym[a] != 0:
                    lo = box[a][0] - m[a]
                    c.prove(f"reduce/{name}:clipped_lower[{a}]", (got[0] >= 0) & (got[0] >= lo) & ((got[0] == 0) | (got[0] == lo)))
                    c.prove(f"reduce/{name}:clipped_upper[{a}]", got[1] == box[a][1] - m[a])
                    c.prove(f"reduce/{name}:inside_reduced_volume[{a}]", (got[0] < got[1]) & (got[1] <= new["vol"][a][1]))
                    c.prove(f"reduce/{name}:unclipped_extent_shifted_by_plane[{a}]", (un[0] == box[a][0] - m[a]) & (un[1] == box[a][1] - m[a]))
                else:
                    c.prove(f"reduce/{name}:untouched[{a}]", _eq(got, box[a]) & _eq(un, box[a]))
        c.prove("reduce/no_extra_entries", set(new) | dropped == set(slices) and set(unred) == set(new))

    return body


def _eq(p, q):
    return (p[0] == q[0]) & (p[1] == q[1])


def _not(b):
    return (not b) if isinstance(b, bool) else ~b


def _walls_contract(sym, existing):
    def body(c, inp):
        import jax

        import fdtdx.fdtd.symmetry as S
        from fdtdx.objects.boundaries.pec import PerfectElectricConductor
        from vc.obl import sym_int

        _quiet()
        cfg = _cfg(sym)
        shape = tuple(inp.scalar(f"R{a}", sym_int(f"R{a}", lo=1)) for a in range(3))
        inp.note("symmetry", list(sym))
        c.cover("pre")
        walls = S.make_symmetry_walls(config=cfg, reduced_volume_shape=shape, key=jax.random.PRNGKey(0), existing_names=set(existing))
        want_axes = [a for a in range(3) if sym[a] == -1]
        c.prove("walls/one_PEC_per_electric_plane_only", [w.axis for w in walls] == want_axes)
        names = [w.name for w in walls]
        c.prove("walls/names_fresh_and_distinct", len(set(names)) == len(names) and not (set(names) & set(existing)))
        for w in walls:
            a = w.axis
            c.prove(f"walls/[{a}]:is_PEC_on_min_face", type(w) is PerfectElectricConductor and w.direction == "-")
            c.prove(f"walls/[{a}]:flagged_symmetry_wall", w._is_symmetry_wall is True)
            for b in range(3):
                lo, hi = w.grid_slice_tuple[b]
                if b == a:
                    c.prove(f"walls/[{a}]:one_cell_on_plane", (lo == 0) & (hi == 1))
                else:
                    c.prove(f"walls/[{a}]:spans_reduced_volume[{b}]", (lo == 0) & (hi == shape[b]))

    return body


# ---------------------------------------------------------------------------------------
# bounded: the call site in the real place_objects
# ---------------------------------------------------------------------------------------


def _expected(sym, nvol, boxes):
    """pure-python statement of the property for concrete data"""
    m = [nvol[a] // 2 if sym[a] != 0 else 0 for a in range(3)]
    rvol = tuple(nvol[a] // 2 if sym[a] != 0 else nvol[a] for a in range(3))
    out = {}
    for name, box in boxes.items():
        if any(sym[a] != 0 and box[a][1] <= m[a] for a in range(3)):
            out[name] = None
            continue
        clipped = tuple((max(box[a][0], m[a]) - m[a], box[a][1] - m[a]) if sym[a] != 0 else box[a] for a in range(3))
        un = tuple((box[a][0] - m[a], box[a][1] - m[a]) if sym[a] != 0 else box[a] for a in range(3))
        out[name] = (clipped, un)
    return rvol, out


def _place_objects_chunk(chunk, seed, count):
    def body(c, inp):
        import jax

        import fdtdx
        from fdtdx.materials import Material
        from fdtdx.objects.boundaries.pec import PerfectElectricConductor
        from fdtdx.objects.static_material.static import SimulationVolume, UniformMaterialObject

        _quiet()
        rnd = random.Random(f"C34-{seed}-{chunk}")
        for i in range(count):
            sym = rnd.choice(SYMS[1:])
            nvol = tuple(rnd.choice([2, 4, 5, 6, 7, 8]) for _ in range(3))
            if all((n // 2 if s_ != 0 else n) == 1 for n, s_ in zip(nvol, sym)):
                nvol = (nvol[0] + 2, nvol[1], nvol[2])  # a 1x1x1 reduced domain is rejected by array allocation (not part of C34)
            cfg = fdtdx.SimulationConfig(time=2e-15, grid=fdtdx.UniformGrid(spacing=1e-7), backend="cpu", symmetry=sym)
            vol = SimulationVolume(name="vol", partial_grid_shape=nvol)
            objs, cons, boxes = [vol], [], {}
            for k in range(rnd.randint(1, 3)):
                name = f"o{k}"
                box = []
                for a in range(3):
                    lo = rnd.randint(0, nvol[a] - 1)
                    box.append((lo, rnd.randint(lo + 1, nvol[a])))
                o = UniformMaterialObject(name=name, material=Material(permittivity=2.0))
                objs.append(o)
                cons.append(o.set_grid_coordinates(axes=(0, 1, 2, 0, 1, 2), sides=("-", "-", "-", "+", "+", "+"), coordinates=tuple(b[0] for b in box) + tuple(b[1] for b in box)))
                boxes[name] = tuple(box)
            odd = any(sym[a] != 0 and (nvol[a] < 2 or nvol[a] % 2) for a in range(3))
            case = {"symmetry": sym, "volume": nvol, "boxes": boxes}
            try:
                oc, arrays, params, cfg2, info = fdtdx.place_objects(objs, cfg, cons, key=jax.random.PRNGKey(0))
            except ValueError as e:
                c.bounded(f"place_objects/{chunk}/{i}", odd and "even number" in str(e), case=case, witness={"raised": str(e)[:200], **case})
                continue
            except Exception as e:  # noqa: BLE001  (any other exception of the real code is a failed case, not a crash of the check)
                c.bounded(f"place_objects/{chunk}/{i}", False, case=case, witness={"raised": repr(e)[:300], **case})
                continue
            problems = []
            if odd:
                problems.append("odd symmetric axis accepted")
            rvol, exp = _expected(sym, nvol, boxes)
            if tuple(oc.volume.grid_shape) != rvol:
                problems.append(f"reduced volume {oc.volume.grid_shape} != {rvol}")
            vun = tuple((-(nvol[a] // 2), nvol[a] // 2) if sym[a] != 0 else (0, nvol[a]) for a in range(3))
            if tuple(oc.volume.unreduced_grid_slice_tuple) != vun:
                problems.append(f"volume unclipped extent {oc.volume.unreduced_grid_slice_tuple} != {vun}")
            if tuple(arrays.fields.E.shape[1:]) != rvol:
                problems.append(f"field shape {arrays.fields.E.shape} != reduced volume {rvol}")
            placed = {o.name: o for o in oc.objects}
            for name, e in exp.items():
                if e is None:
                    if name in placed:
                        problems.append(f"{name} should be dropped")
                    continue
                if name not in placed:
                    problems.append(f"{name} missing")
                    continue
                if tuple(placed[name].grid_slice_tuple) != e[0]:
                    problems.append(f"{name} slice {placed[name].grid_slice_tuple} != {e[0]}")
                if tuple(placed[name].unreduced_grid_slice_tuple) != e[1]:
                    problems.append(f"{name} unclipped {placed[name].unreduced_grid_slice_tuple} != {e[1]}")
            walls = [o for o in oc.objects if getattr(o, "_is_symmetry_wall", False)]
            if [w.axis for w in walls] != [a for a in range(3) if sym[a] == -1]:
                problems.append(f"walls on axes {[w.axis for w in walls]}")
            for w in walls:
                want = tuple((0, 1) if b == w.axis else (0, rvol[b]) for b in range(3))
                if type(w) is not PerfectElectricConductor or w.direction != "-" or tuple(w.grid_slice_tuple) != want:
                    problems.append(f"wall {w.name}: {type(w).__name__} {w.direction} {w.grid_slice_tuple}")
            extra = [o.name for o in oc.objects if o.name not in exp and o.name != "vol" and o not in walls]
            if extra:
                problems.append(f"unexpected objects {extra}")
            c.bounded(f"place_objects/{chunk}/{i}", not problems, case=case, witness={"problems": problems, **case})

    return body


def tasks(tier, seed):
    out = {"validate_symmetric_axis_cells": Task(_validate_contract, patch_names=())}
    for sym in SYMS:
        tag = "".join({0: "0", -1: "E", 1: "M"}[s] for s in sym)
        out[f"reduce/{tag}/one_object"] = Task(_reduce_contract(sym, ["mat"]), patch_names=(), max_paths=8192)
        out[f"walls/{tag}"] = Task(_walls_contract(sym, ()), patch_names=())
    for sym in [(-1, 0, 0), (0, 1, 0), (1, -1, 0), (0, -1, 1)] + ([(-1, -1, -1), (1, 1, 1)] if tier == "thorough" else []):
        tag = "".join({0: "0", -1: "E", 1: "M"}[s] for s in sym)
        out[f"reduce/{tag}/two_objects"] = Task(_reduce_contract(sym, ["mat", "mat"]), patch_names=(), max_paths=16384)
        out[f"reduce/{tag}/bloch_boundary"] = Task(_reduce_contract(sym, [("bloch", [a for a in range(3) if sym[a] != 0][0])]), patch_names=(), max_paths=8192)
    out["walls/E0E/names_taken"] = Task(_walls_contract((-1, 0, -1), ("_sym_wall_x", "_sym_wall_x_1", "_sym_wall_z", "other")), patch_names=())
    out["walls/EEE/names_taken"] = Task(_walls_contract((-1, -1, -1), ("_sym_wall_y",)), patch_names=())
    n_chunks, per = (4, 10) if tier == "quick" else (8, 40)
    for k in range(n_chunks):
        out[f"place_objects/{k:02d}"] = Task(_place_objects_chunk(k, seed, per), patch_names=())
    return out


def replay(key, obligation, witness):
    """real reduce_resolved_slices / make_symmetry_walls on the witness integers (plain Python ints)"""
    import jax

    import fdtdx.fdtd.symmetry as S
    from fdtdx.materials import Material
    from fdtdx.objects.static_material.static import SimulationVolume, UniformMaterialObject

    _quiet()
    if key.startswith("place_objects/"):
        return bool(witness), f"real place_objects: {witness}"
    sc = (witness or {}).get("scalars", {})
    sym = tuple((witness or {}).get("notes", {}).get("symmetry", (0, 0, 0)))
    try:
        if key.startswith("validate"):
            from fdtdx.core.misc import validate_symmetric_axis_cells

            n = int(sc["n"])
            try:
                validate_symmetric_axis_cells(n, "x")
                raised = False
            except ValueError:
                raised = True
            return raised != (n < 2 or n % 2 != 0), f"n={n}: raised={raised}"
        if key.startswith("walls/"):
            shape = tuple(int(sc[f"R{a}"]) for a in range(3))
            walls = S.make_symmetry_walls(config=_cfg(sym), reduced_volume_shape=shape, key=jax.random.PRNGKey(0), existing_names=set())
            desc = [(type(w).__name__, w.axis, w.direction, w.grid_slice_tuple, w._is_symmetry_wall, w.name) for w in walls]
            want = [("PerfectElectricConductor", a, "-", tuple((0, 1) if b == a else (0, shape[b]) for b in range(3)), True) for a in range(3) if sym[a] == -1]
            return [d[:5] for d in desc] != want, f"symmetry {sym} reduced shape {shape}: walls {desc}; contract {want}"
        vol = tuple((int(sc[f"vs0[{a}]"]), int(sc[f"vs1[{a}]"])) for a in range(3))
        boxes = {}
        k = 0
        while f"o{k}.s0[0]" in sc:
            boxes[f"o{k}"] = tuple((int(sc[f"o{k}.s0[{a}]"]), int(sc[f"o{k}.s1[{a}]"])) for a in range(3))
            k += 1
    except Exception as e:  # noqa: BLE001
        return False, f"witness incomplete: {e}"
    objs = {"vol": SimulationVolume(name="vol")}
    for name in boxes:
        objs[name] = UniformMaterialObject(name=name, material=Material())
    slices = {"vol": vol, **boxes}
    n = [vol[a][1] - vol[a][0] for a in range(3)]
    odd = any(sym[a] != 0 and (n[a] < 2 or n[a] % 2) for a in range(3))
    try:
        new, unred, dropped, rshape = S.reduce_resolved_slices(resolved_slices=dict(slices), object_map=objs, config=_cfg(sym), volume_name="vol")
    except ValueError as e:
        return (not odd), f"symmetry {sym} volume {vol}: raised {str(e)[:120]} (odd/too small symmetric axis: {odd})"
    m = [vol[a][0] + n[a] // 2 if sym[a] != 0 else 0 for a in range(3)]
    problems = []
    if odd:
        problems.append("odd symmetric axis accepted")
    for a in range(3):
        want = (0, n[a] // 2) if sym[a] != 0 else vol[a]
        if tuple(new["vol"][a]) != want or rshape[a] != want[1] - want[0]:
            problems.append(f"volume axis {a}: {new['vol'][a]} shape {rshape[a]} != {want}")
        wantu = (vol[a][0] - m[a], vol[a][1] - m[a]) if sym[a] != 0 else vol[a]
        if tuple(unred["vol"][a]) != wantu:
            problems.append(f"volume unclipped extent axis {a}: {unred['vol'][a]} != {wantu}")
    for name, box in boxes.items():
        below = any(sym[a] != 0 and box[a][1] <= m[a] for a in range(3))
        if below != (name in dropped) or (name in new) == below:
            problems.append(f"{name}: entirely below plane={below}, dropped={name in dropped}, kept={name in new}")
            continue
        if below:
            continue
        for a in range(3):
            wc = (max(box[a][0], m[a]) - m[a], box[a][1] - m[a]) if sym[a] != 0 else box[a]
            wu = (box[a][0] - m[a], box[a][1] - m[a]) if sym[a] != 0 else box[a]
            if tuple(new[name][a]) != wc or tuple(unred[name][a]) != wu:
                problems.append(f"{name} axis {a}: clipped {new[name][a]} (contract {wc}), unclipped {unred[name][a]} (contract {wu})")
    return bool(problems), f"symmetry {sym} volume {vol} boxes {boxes}: real reduce_resolved_slices -> {new}, unclipped {unred}, dropped {dropped}, shape {rshape}; deviations: {problems}"
