"""C36  Dispersive cells follow their recurrence (and: what is NOT covered).

Contract of the dispersive (ADE) branch of the REAL fdtdx.fdtd.update.update_E, on fully symbolic
states (symbolic grid shape, fields, materials, coefficient arrays, Courant number), relative to the
SAME real update_E run on the same state with the dispersive arrays removed (E_nd):

 diagonal kernel (1|3-component inverse permittivity / conductivity)
  (b1) stored polarization:   P_prev' == P_curr
                              P_curr' == c1*P_curr + c2*P_prev + c3*E  (+ c4*E')      [documented recurrence]
  (b2) field correction:      E' * (1 + s + k) == E_nd * (1 + s) + inv_eps * sum_p (P_curr - P_hat)
                              s = c*sigma*eta0*inv_eps/2 (0 without conductivity),  k = inv_eps*sum_p c4,
                              P_hat = c1*P_curr + c2*P_prev + c3*E                   [documented implicit divide]
  (a)  per cell: all pole coefficients of the cell zero and P_curr zero there  ==>  E' == E_nd there,
                 P_curr' == 0 there (so the hypothesis is an invariant of the step).
  frame: H, materials and the coefficient arrays are untouched.
 full-tensor kernel (9-component inverse permittivity)
  (a') whole domain: all pole coefficients zero and P_curr zero  ==>  E' == E_nd, P_curr' == 0
       (per-cell is not claimed there: the kernel averages the polarization current of neighbouring
       cells through the off-diagonal permittivity);
  (b1) for diagonal couplings (c3 with 1|3 components, or 9 components with zero off-diagonals).
 initial state: the real place_objects run on a small dispersive scene starts with P_curr = P_prev = 0 and
  all-zero coefficients outside the dispersive object (bounded stand-in, real JAX).

NOT covered (stated, not proved): the 10^4-step energy bound for passive media (a whole-trajectory
spectral property, not a contract of one step).
"""

from __future__ import annotations

from props import common as K
from vc import array as A
from vc import scene
from vc.core import ctx
from vc.harness import Task
from vc.obl import prove_arrays_equal, prove_pointwise

ID = "C36"
LEVEL = "proof"
TECHNIQUE = "relational symbolic execution of the real update_E with and without the dispersive arrays on one symbolic state; pointwise obligations by z3 / exact ring normal form; initial state by a bounded run of the real place_objects"
MODULES = K.SOLVER_MODULES
FILES = ["src/fdtdx/fdtd/update.py", "src/fdtdx/dispersion.py", "src/fdtdx/fdtd/initialization.py"]
FUNCTIONS = ["fdtdx.fdtd.update.update_E (dispersive ADE branch, diagonal and full-tensor kernels)", "fdtdx.dispersion.compute_pole_coefficients / _per_axis / _tensor: acceptance gate + Jury conditions (tasks acceptance_gate(C35)/*, C35's contracts re-proved under this property)"]
INLINED = [
    "fdtdx.fdtd.update.pad_fields_for_boundaries",
    "fdtdx.core.physics.curl.curl_H",
    "fdtdx.fdtd.misc.compute_anisotropic_update_matrices / avg_anisotropic_E_component",
    "fdtdx.fdtd.update.apply_boundary_post_E_update",
]
STUBS = ["scene objects: real SimulationVolume and boundary objects placed on symbolic boxes (vc.scene); no PML, no sources"]
ASSUMPTIONS = [
    "pole count (1, 2) and component tiers (inv_eps 1|3|9, c1/c2 1|3, c3/c4 1|3, conductivity none|1|3) are structural and enumerated; everything else is symbolic",
    "inverse permittivity > 0, conductivity >= 0, Courant number in (0,1); CCPR: the implicit divisor 1 + s + k is non-zero (initialisation rejects divisor <= 0)",
    "no sources in the scene; with c4 (CCPR) no PEC walls either: the code uses the E value BEFORE source injection and wall reset as E^{n+1} in the recurrence, so at source / wall cells of a CCPR medium P_curr' = P_hat + c4*E_pre differs from the documented P_hat + c4*E^{n+1} (observation, not asserted)",
    "(b2) is proved for the diagonal kernel only; for the full-tensor kernel only (a') and (b1) are proved",
    "9-component (oriented) couplings: (b1) only with zero off-diagonal entries; the symmetrised off-diagonal coupling stencil is not specified by the property and not checked",
    "the long-horizon clause (field energy within a factor 10 for 10^4 steps for accepted passive media) is NOT covered: it is a spectral property of the whole trajectory, not a step contract",
    "initial state P = 0 / zero coefficients outside dispersive objects: bounded stand-in (one concrete scene per kind, real JAX), not a proof",
]
MIN_OBLIGATIONS = {"quick": 150, "thorough": 300}
LEVEL_TEXT = (
    "Deductive proof over all grid shapes, field / polarization / material / coefficient values that the dispersive branch of the real update_E stores the documented recurrence, "
    "applies the documented implicit field correction relative to the non-dispersive update, and leaves cells with all-zero coefficients and zero polarization exactly on the non-dispersive "
    "evolution with zero polarization (step invariant); the initial state is checked by a bounded run of the real initialisation"
)
LEVEL_NOTE = "exact real arithmetic; pole count / component tiers enumerated; the 10^4-step growth bound is not covered; tensor kernel: whole-domain version of clause (a) and recurrence only; scenes without sources (and without PEC walls when c4 is present)"


def _tier_idx(arr, comp):
    return comp if arr.shape[1] == 3 else 0


def _setup(c, inp, spec):
    from fdtdx.constants import eta0

    shape = scene.sym_shape()
    for n, v in zip("xyz", shape):
        inp.scalar(f"N{n}", v)
    cfg = scene.make_config()
    cn = cfg.courant_number
    inp.scalar("courant_number", cn)
    bnds = K.make_boundaries(spec["bnd"], shape, cfg)
    objs = scene.make_objects(shape, cfg, bnds, [])
    arr = scene.make_arrays(shape, eps_tier=spec["eps"], mu_tier="scalar", sigE_tier=spec.get("sigE"), recording_state=object())
    P = spec["poles"]
    zero = spec.get("zero_everywhere", False)

    def coef(name, comps):
        if zero:
            return A.zeros((P, comps, *shape))
        return A.fresh_array(name, (P, comps, *shape))

    c1 = coef("c1", spec["c12"])
    c2 = coef("c2", spec["c12"])
    if spec["c3"] == "9diag":
        d = coef("c3d", 3)
        z = A.zeros((P, *shape))
        c3 = A.stack([d[:, 0], z, z, z, d[:, 1], z, z, z, d[:, 2]], axis=1)
    else:
        c3 = coef("c3", spec["c3"])
    c4 = coef("c4", spec["c3"]) if spec.get("c4") else None
    Pc = A.zeros((P, 3, *shape)) if zero else A.fresh_array("P_curr", (P, 3, *shape))
    Pp = A.fresh_array("P_prev", (P, 3, *shape))
    inp.array("E", arr.fields.E)
    inp.array("H", arr.fields.H)
    inp.array("inv_eps", arr.inv_permittivities, default=1.0)
    for nm, a in (("c1", c1), ("c2", c2), ("c3", c3), ("c4", c4), ("P_curr", Pc), ("P_prev", Pp)):
        if a is not None and hasattr(a, "_z3funcs"):
            inp.array(nm, a)
    if arr.electric_conductivity is not None:
        inp.array("sigma_E", arr.electric_conductivity)
    inp.note("spec", {k: str(v) for k, v in spec.items()})
    disp = arr.aset("dispersive_c1", c1).aset("dispersive_c2", c2).aset("dispersive_c3", c3).aset("dispersive_c4", c4)
    disp = disp.aset("fields->dispersive_P_curr", Pc).aset("fields->dispersive_P_prev", Pp)
    t_arr, t = K.time_scalar("t")
    c.cover("pre")
    return shape, cfg, cn, eta0, objs, arr, disp, t_arr, (c1, c2, c3, c4, Pc, Pp)


def _c3_at(c3, p, comp, cell):
    if c3.shape[1] == 9:
        return c3.at_index((p, 4 * comp, *cell))
    return c3.at_index((p, _tier_idx(c3, comp), *cell))


def _p_hat(coefs, E, p, comp, cell):
    c1, c2, c3, c4, Pc, Pp = coefs
    return (
        c1.at_index((p, _tier_idx(c1, comp), *cell)) * Pc.at_index((p, comp, *cell))
        + c2.at_index((p, _tier_idx(c2, comp), *cell)) * Pp.at_index((p, comp, *cell))
        + _c3_at(c3, p, comp, cell) * E.at_index((comp, *cell))
    )


def _raw(idx):
    return tuple(A._raw_index(i) for i in idx)


def _step(spec):
    def body(c, inp):
        import fdtdx.fdtd.update as U

        shape, cfg, cn, eta0, objs, arr, disp, t_arr, coefs = _setup(c, inp, spec)
        c1, c2, c3, c4, Pc, Pp = coefs
        P = spec["poles"]
        tensor = spec["eps"] == 9
        s_nd = U.update_E(t_arr, arr, objs, cfg, True)
        s_d = U.update_E(t_arr, disp, objs, cfg, True)
        E0, E_nd, E_d = arr.fields.E, s_nd.fields.E, s_d.fields.E
        # frame
        for f in ("inv_permittivities", "inv_permeabilities", "electric_conductivity", "dispersive_c1", "dispersive_c2", "dispersive_c3", "dispersive_c4"):
            _same(f"frame:{f}", getattr(s_d, f), getattr(disp, f))
        _same("frame:H", s_d.fields.H, disp.fields.H)
        c.prove("non_dispersive_run_allocates_no_polarization", s_nd.fields.dispersive_P_curr is None and s_nd.fields.dispersive_P_prev is None)
        # (b1) recurrence
        prove_arrays_equal("P_prev'==P_curr", s_d.fields.dispersive_P_prev, Pc)
        inv_eps, sig = arr.inv_permittivities, arr.electric_conductivity

        def mat(a, comp, cell):
            return a.at_index((comp if a.shape[0] == 3 else 0, *cell))

        def s_of(comp, cell):
            if sig is None:
                return 0
            return cn * mat(sig, comp, cell) * eta0 * mat(inv_eps, comp, cell) / 2

        def kappa(comp, cell):
            if c4 is None:
                return 0
            return mat(inv_eps, comp, cell) * sum(_c3_at(c4, p, comp, cell) for p in range(P))

        def divisor_ok(idx):
            comp, cell = idx[-4], _raw(idx[-3:])
            if c4 is None or tensor:
                return True
            return A._tobool(1 + s_of(comp, cell) + kappa(comp, cell) != 0)

        def off_wall(idx):
            """not a tangential component on a PEC slab (those are reset to 0 after the update)"""
            comp = idx[-4]
            res = True
            for ax, (lo, hi) in enumerate(spec["bnd"]):
                if ax == comp:
                    continue
                i = idx[len(idx) - 3 + ax]
                if lo == "pec":
                    res = A._vand(res, A._vnot(i == 0))
                if hi == "pec":
                    res = A._vand(res, A._vnot(i == shape[ax] - 1))
            return res

        def p_new_spec(v, idx):
            p, comp, cell = idx[0], idx[1], _raw(idx[2:])
            want = _p_hat(coefs, E0, p, comp, cell)
            if c4 is not None:
                want = want + _c3_at(c4, p, comp, cell) * E_d.at_index((comp, *cell))
            return A.v_eq(v, want)

        if not spec.get("zero_everywhere"):
            prove_pointwise("P_curr'==c1*P_curr+c2*P_prev+c3*E(+c4*E')", s_d.fields.dispersive_P_curr, p_new_spec, where=divisor_ok)
        if not tensor and not spec.get("zero_everywhere"):
            # (b2) field correction relative to the non-dispersive run
            def e_spec(v, idx):
                comp, cell = idx[0], _raw(idx[1:])
                s, k = s_of(comp, cell), kappa(comp, cell)
                delta = sum(Pc.at_index((p, comp, *cell)) - _p_hat(coefs, E0, p, comp, cell) for p in range(P))
                return A.v_eq(v * (1 + s + k), E_nd.at_index((comp, *cell)) * (1 + s) + mat(inv_eps, comp, cell) * delta)

            prove_pointwise("E'*(1+s+k)==E_nd*(1+s)+inv_eps*sum(P_curr-P_hat)[off PEC walls]", E_d, e_spec, where=lambda idx: A._vand(divisor_ok(idx), off_wall(idx)))

            # (a) per cell
            def zero_cell(cell):
                conds = []
                for arr_ in (c1, c2, c3, c4):
                    if arr_ is None:
                        continue
                    for p in range(P):
                        for k in range(arr_.shape[1]):
                            conds.append(A._tobool(arr_.at_index((p, k, *cell)) == 0))
                for p in range(P):
                    for k in range(3):
                        conds.append(A._tobool(Pc.at_index((p, k, *cell)) == 0))
                r = True
                for x in conds:
                    r = A._vand(r, x)
                return r

            prove_arrays_equal("zero_coefficient_cell:E'==E_nd", E_d, E_nd, where=lambda idx: zero_cell(_raw(idx[1:])))
            prove_pointwise("zero_coefficient_cell:P_curr'==0", s_d.fields.dispersive_P_curr, lambda v, idx: A.v_eq(v, 0), where=lambda idx: zero_cell(_raw(idx[2:])))
        if spec.get("zero_everywhere"):
            prove_arrays_equal("all_coefficients_zero:E'==E_nd", E_d, E_nd)
            prove_pointwise("all_coefficients_zero:P_curr'==0", s_d.fields.dispersive_P_curr, lambda v, idx: A.v_eq(v, 0))

    return body


def _same(name, a, b):
    c = ctx()
    if a is b:
        return c.prove(name, True)
    if isinstance(a, A.SymArray) and isinstance(b, A.SymArray):
        return prove_arrays_equal(name, a, b)
    return c.prove(name, a is None and b is None)


# ---------------------------------------------------------------------------------------
# initial state: bounded run of the real initialisation
# ---------------------------------------------------------------------------------------


def _initial_state(kind):
    def body(c, inp):
        import jax
        import jax.numpy as jnp
        import numpy as np

        import fdtdx

        cfg = fdtdx.SimulationConfig(time=20e-15, grid=fdtdx.UniformGrid(spacing=50e-9), backend="cpu", dtype=jnp.float64, gradient_config=None)
        vol = fdtdx.SimulationVolume(partial_real_shape=(0.4e-6, 0.4e-6, 0.4e-6), material=fdtdx.Material(permittivity=1.0))
        if kind == "lorentz+drude":
            model = fdtdx.DispersionModel(poles=(fdtdx.LorentzPole(resonance_frequency=3e15, damping=1e14, delta_epsilon=1.5), fdtdx.DrudePole(plasma_frequency=2e15, damping=5e13)))
        else:
            model = fdtdx.DispersionModel(poles=(fdtdx.CCPRPole(pole=complex(-1e14, -3e15), residue=complex(2e14, 1e15)),))
        slab = fdtdx.UniformMaterialObject(partial_real_shape=(0.2e-6, None, None), material=fdtdx.Material(permittivity=2.0, dispersion=model), name="slab")
        cons = [slab.place_at_center(vol)]
        objs, arrays, params, cfg2, info = fdtdx.place_objects(object_list=[vol, slab], config=cfg, constraints=cons, key=jax.random.PRNGKey(0))
        f = arrays.fields
        ok_alloc = f.dispersive_P_curr is not None and f.dispersive_P_prev is not None and arrays.dispersive_c1 is not None
        c.bounded(f"init/{kind}:polarization_allocated", ok_alloc, case=dict(kind=kind, check="allocated"))
        if not ok_alloc:
            return
        ok_zero = bool(np.all(np.asarray(f.dispersive_P_curr) == 0)) and bool(np.all(np.asarray(f.dispersive_P_prev) == 0))
        c.bounded(f"init/{kind}:P_curr=P_prev=0", ok_zero, case=dict(kind=kind, check="P zero", shape=list(np.asarray(f.dispersive_P_curr).shape)))
        sl = tuple(slice(a, b) for a, b in [o for o in objs.objects if o.name == "slab"][0].grid_slice_tuple)
        outside = np.ones(np.asarray(arrays.dispersive_c1).shape[2:], dtype=bool)
        outside[sl] = False
        ok_out = True
        names = ["dispersive_c1", "dispersive_c2", "dispersive_c3"] + (["dispersive_c4"] if arrays.dispersive_c4 is not None else [])
        for nm in names:
            a = np.asarray(getattr(arrays, nm))
            ok_out &= bool(np.all(a[:, :, outside] == 0))
        inside_nonzero = bool(np.all(np.asarray(arrays.dispersive_c3)[:, :, ~outside] != 0))
        c.bounded(f"init/{kind}:coefficients_zero_outside_dispersive_object", ok_out, case=dict(kind=kind, check="zero outside"))
        c.bounded(f"init/{kind}:coefficients_set_inside_dispersive_object", inside_nonzero, case=dict(kind=kind, check="nonzero inside"))
        c.bounded(f"init/{kind}:c4_allocated_iff_dE/dt_coupling", (arrays.dispersive_c4 is not None) == (kind == "ccpr"), case=dict(kind=kind, check="c4 allocation"))

    return body


# ---------------------------------------------------------------------------------------


OPEN = ((None, None),) * 3
MIXED = (("periodic", "periodic"), (None, None), (None, "pmc"))
WALLS = (("pec", "pec"), ("periodic", "periodic"), ("pec", None))


def _label(spec):
    return f"{K.bnd_label(spec['bnd'])}/P{spec['poles']}_e{spec['eps']}_c{spec['c12']}{spec['c3']}{'_c4' if spec.get('c4') else ''}{'_s' + str(spec['sigE']) if spec.get('sigE') else ''}{'_zero' if spec.get('zero_everywhere') else ''}"


def tasks(tier, seed):
    specs = [
        dict(bnd=OPEN, poles=1, eps=1, c12=1, c3=1),
        dict(bnd=OPEN, poles=2, eps=3, c12=3, c3=3),
        dict(bnd=MIXED, poles=2, eps=3, c12=1, c3=1, sigE=3),
        dict(bnd=WALLS, poles=1, eps=3, c12=3, c3=3, sigE=1),
        dict(bnd=OPEN, poles=1, eps=1, c12=1, c3=1, c4=True),
        dict(bnd=MIXED, poles=2, eps=3, c12=3, c3=3, c4=True, sigE=3),
        dict(bnd=MIXED, poles=1, eps=3, c12=1, c3=1, c4=True, sigE=1),
        # full-tensor kernel
        dict(bnd=OPEN, poles=1, eps=9, c12=3, c3=3, zero_everywhere=True),
        dict(bnd=MIXED, poles=2, eps=9, c12=3, c3=9, zero_everywhere=True),
        dict(bnd=OPEN, poles=1, eps=9, c12=3, c3=3),
        dict(bnd=MIXED, poles=1, eps=9, c12=3, c3="9diag"),
    ]
    if tier == "thorough":
        for bnd in (OPEN, MIXED, WALLS):
            for poles in (1, 2):
                for eps in (1, 3):
                    for c12, c3 in ((1, 1), (3, 3)):
                        for sig in (None, 1, 3):
                            for c4 in (False, True):
                                if c4 and bnd is WALLS:
                                    continue
                                s = dict(bnd=bnd, poles=poles, eps=eps, c12=c12, c3=c3, sigE=sig, c4=c4)
                                if _label(s) not in [_label(x) for x in specs]:
                                    specs.append(s)
    out = {}
    for s in specs:
        out[f"step/{_label(s)}"] = Task(_step(s))
    for kind in ("lorentz+drude", "ccpr"):
        out[f"initial_state/{kind}"] = Task(_initial_state(kind), modules=[], bounded=True)
    # "passive Lorentz/Drude media that placement accepts ... do not grow": the acceptance gate of the coefficient
    # functions every placement path goes through (a raise only for an unresolved ACTIVE axis; everything accepted
    # satisfies the Jury conditions, which with the jury theorem keep the recurrence roots in the closed unit disk)
    # is C35's contract; those tasks are re-proved here on the same real code so that a weakened gate fails under
    # this property as well.  The 10^4-step energy factor itself is not covered (see ASSUMPTIONS).
    import props.C35 as P35

    for k, t in P35.tasks(tier, seed).items():
        parts = k.split("/")
        if k == "jury_theorem" or (len(parts) == 3 and parts[0] in ("per_axis", "tensor", "scalar") and parts[1] in ("lorentz", "drude")):
            out[f"acceptance_gate(C35)/{k}"] = Task(t.body, modules=t.modules if t.modules is not None else P35.MODULES, axioms=t.axioms, on_exception=t.on_exception, extra_patch=t.extra_patch, bounded=t.bounded, max_paths=t.max_paths, patch_names=t.patch_names)
    return out


def replay(key, obligation, witness):
    if key.startswith("acceptance_gate(C35)/"):
        import props.C35 as P35

        return P35.replay(key.split("/", 1)[1], obligation, witness)
    return _replay_step(key, obligation, witness)


def _replay_step(key, obligation, witness):
    """real update_E (real JAX, float64) with and without the dispersive arrays on a random small state
    of the failing configuration: compares with the documented recurrence / correction"""
    import jax
    import jax.numpy as jnp
    import numpy as np

    import fdtdx.fdtd.update as U
    from fdtdx.constants import eta0
    from fdtdx.fdtd.container import ObjectContainer

    spec = K.parse_spec((witness or {}).get("notes"))
    if not spec:
        return False, "no configuration recorded in the witness"
    details = []
    for attempt in range(3):
        cs = dict(spec)
        cs.setdefault("mu", "scalar")
        shape, cfg, objs, arrays, rng = K.concrete_scene(cs, witness if attempt == 0 else {"scalars": {"Nx": 3 + attempt, "Ny": 4, "Nz": 3}}, seed=attempt)
        oc = ObjectContainer(object_list=list(objs), volume_idx=0)
        P = int(spec["poles"])
        zero = bool(spec.get("zero_everywhere"))

        def coef(comps, scale=0.3):
            return jnp.asarray(np.zeros((P, comps, *shape)) if zero else rng.uniform(-scale, scale, size=(P, comps, *shape)))

        c1, c2 = coef(spec["c12"], 1.5), coef(spec["c12"], 0.9)
        if spec["c3"] == "9diag":
            d = np.asarray(coef(3))
            full = np.zeros((P, 9, *shape))
            full[:, 0], full[:, 4], full[:, 8] = d[:, 0], d[:, 1], d[:, 2]
            c3 = jnp.asarray(full)
        else:
            c3 = coef(spec["c3"])
        c4 = coef(spec["c3"], 0.05) if spec.get("c4") else None
        Pc = jnp.asarray(np.zeros((P, 3, *shape)) if zero else rng.normal(size=(P, 3, *shape)))
        Pp = jnp.asarray(rng.normal(size=(P, 3, *shape)))
        # a zero-coefficient cell with zero polarization
        cell = tuple(int(rng.integers(0, n)) for n in shape)

        def zero_cell(a):
            return None if a is None else a.at[(slice(None), slice(None), *cell)].set(0.0)

        c1, c2, c3, c4, Pc = zero_cell(c1), zero_cell(c2), zero_cell(c3), zero_cell(c4), zero_cell(Pc)
        disp = arrays.aset("dispersive_c1", c1).aset("dispersive_c2", c2).aset("dispersive_c3", c3).aset("dispersive_c4", c4)
        disp = disp.aset("fields->dispersive_P_curr", Pc).aset("fields->dispersive_P_prev", Pp)
        t = jnp.asarray(0, dtype=jnp.int32)
        with jax.disable_jit():
            s_nd = U.update_E(t, arrays, oc, cfg, True)
            s_d = U.update_E(t, disp, oc, cfg, True)
        E0, E_nd, E_d = (np.asarray(x) for x in (arrays.fields.E, s_nd.fields.E, s_d.fields.E))
        inv_eps = np.asarray(arrays.inv_permittivities)
        c3n = np.asarray(c3)
        c3d = c3n[:, (0, 4, 8)] if c3n.shape[1] == 9 else c3n
        P_hat = np.asarray(c1) * np.asarray(Pc) + np.asarray(c2) * np.asarray(Pp) + c3d * E0
        want_P = P_hat + (np.asarray(c4) * E_d if c4 is not None else 0)
        errP = float(np.max(np.abs(np.asarray(s_d.fields.dispersive_P_curr) - want_P)))
        errPp = float(np.max(np.abs(np.asarray(s_d.fields.dispersive_P_prev) - np.asarray(Pc))))
        errCell = float(np.max(np.abs((E_d - E_nd)[(slice(None), *cell)]))) + float(np.max(np.abs(np.asarray(s_d.fields.dispersive_P_curr)[(slice(None), slice(None), *cell)])))
        errE = 0.0
        if int(spec["eps"]) != 9:
            sig = arrays.electric_conductivity
            s = 0.0 if sig is None else float(cfg.courant_number) * np.asarray(sig) * eta0 * inv_eps / 2
            k = 0.0 if c4 is None else inv_eps * np.sum(np.asarray(c4), axis=0)
            delta = np.sum(np.asarray(Pc) - P_hat, axis=0)
            errE = float(np.max(np.abs(E_d * (1 + s + k) - (E_nd * (1 + s) + inv_eps * delta))))
        details.append(f"attempt {attempt} shape={shape}: |P'-recurrence|={errP:.2e} |P_prev'-P_curr|={errPp:.2e} |E correction residual|={errE:.2e} zero-cell deviation={errCell:.2e}")
        has_walls = any("pec" in p for p in spec["bnd"]) and c4 is not None
        if errP > 1e-9 and not has_walls or errPp > 1e-12 or errE > 1e-9 or errCell > 1e-9:
            return True, "real update_E deviates from the documented dispersive step:\n" + "\n".join(details)
    return False, "\n".join(details)
