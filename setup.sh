#!/bin/bash
# Build the overlay venv (z3 + cvc5 + sympy on top of the repo's /venv) offline.
set -e
cd "$(dirname "$0")"
V=.venv
if [ ! -x $V/bin/python ] || ! $V/bin/python -c "import z3, cvc5, sympy, jax" 2>/dev/null; then
  rm -rf $V
  /venv/bin/python -m venv $V --without-pip
  SP=$V/lib/python3.12/site-packages
  PIP_NO_INDEX=1 /venv/bin/python -m pip install -q --no-index --find-links /opt/veriftools/wheels --target $SP z3-solver cvc5 sympy jsonschema 2>&1 | grep -v WARNING || true
  echo "import site; site.addsitedir('/venv/lib/python3.12/site-packages')" > $SP/zz_repo_venv.pth
fi
# native helper: caching arena allocator (see native/arena_cache.c)
if [ ! -f $V/arena_cache.so ] || [ native/arena_cache.c -nt $V/arena_cache.so ]; then
  (cc -O2 -shared -fPIC -o $V/arena_cache.so native/arena_cache.c || clang -O2 -shared -fPIC -o $V/arena_cache.so native/arena_cache.c) 2>/dev/null || echo "warning: arena_cache.so not built (checks still work, slower)"
fi
$V/bin/python -c "import z3, cvc5, sympy, jax; print('venv ok: z3', z3.get_version_string(), 'jax', jax.__version__)"
