"""Shared scene construction and spec functions for the detector properties C16 and C17.

Everything here is either (a) construction of REAL fdtdx objects (SimulationConfig, SymGrid from
vc.scene, real detectors placed by their REAL ``place_on_grid``) on symbolic data, or (b) spec
functions written from the property text (cell volume = product of the three cell widths, face
area = product of the two transverse widths, Re(E x conj H), the windowed DFT summand).  No
repository code is copied.
"""

from __future__ import annotations

import itertools

from vc import array as A
from vc import scene
from vc.core import SymNum, ctx
from vc.obl import sym_int, sym_real

DET_MODULES = [
    "fdtdx.objects.detectors.detector",
    "fdtdx.objects.detectors.energy",
    "fdtdx.objects.detectors.field",
    "fdtdx.objects.detectors.phasor",
    "fdtdx.objects.detectors.poynting_flux",
    "fdtdx.core.physics.metrics",
    "fdtdx.core.grid",
    "fdtdx.core.misc",
    "fdtdx.core.window",
    "fdtdx.objects.object",
    "fdtdx.config",
]

COMPONENTS = ("Ex", "Ey", "Ez", "Hx", "Hy", "Hz")


# ---------------------------------------------------------------------------------------
# symbolic scene
# ---------------------------------------------------------------------------------------


def with_total_steps(cfg, T):
    """SimulationConfig.time_steps_total is round(time/dt); Detector.place_on_grid needs it as a
    Python int (list lengths).  The config's class is specialised so that the property returns the
    given T (concrete, enumerated by the callers); everything else is the real SimulationConfig."""
    base = type(cfg)

    class ConfigWithSteps(base):
        @property
        def time_steps_total(self):
            return self.__dict__["_verif_T"]

    object.__setattr__(cfg, "__class__", ConfigWithSteps)
    cfg.__dict__["_verif_T"] = T
    return cfg


def make_cfg(nonuniform, T=1):
    """real SimulationConfig on a symbolic grid: symbolic grid shape (Nx,Ny,Nz >= 1), and either a
    UniformGrid with symbolic spacing > 0 (resolved_grid is None -> the detectors' uniform
    fallbacks) or a RectilinearGrid stand-in (vc.scene.SymGrid) with symbolic cell widths > 0."""
    shape = scene.sym_shape()
    cfg = scene.make_config(nonuniform_shape=shape if nonuniform else None)
    if nonuniform:
        g = cfg.grid
        # RectilinearGrid.dx/dy/dz read the private tuple `_cell_widths` (set by __post_init__ from
        # the edges); SymGrid keeps the same arrays under `_w`
        g.__dict__["_cell_widths"] = tuple(g.__dict__["_w"])
    cfg = with_total_steps(cfg, T)
    return shape, cfg


def region(shape, sizes, inp=None):
    """detector box of CONCRETE extent `sizes` at a symbolic position inside the symbolic grid"""
    c = ctx()
    sl = []
    for a in range(3):
        lo = sym_int(f"lo{a}", lo=0)
        c.assume((lo + sizes[a] <= shape[a]).z)
        if inp is not None:
            inp.scalar(f"lo{a}", lo)
        sl.append((lo, lo + sizes[a]))
    return tuple(sl)


def width_fn(cfg, sl):
    """spec: W(axis, i) = physical width of the i-th cell of the box along `axis`"""
    g = cfg.grid
    if cfg.resolved_grid is None:
        s = g.spacing
        return lambda a, i: s
    ws = g.__dict__["_w"]

    def W(a, i):
        return ws[a].at_index((A._raw_index(sl[a][0] + i),))

    return W


def volume_fn(W):
    return lambda x, y, z: W(0, x) * W(1, y) * W(2, z)


def area_fn(W, axis):
    """face area of cell (x,y,z) for a face normal to `axis`: product of the transverse widths"""
    t = [a for a in range(3) if a != axis]

    def Aa(x, y, z):
        i = (x, y, z)
        return W(t[0], i[t[0]]) * W(t[1], i[t[1]])

    return Aa


def cut_volume_weights(dets, V, sizes):
    """Modular cut for the volume weights.  Lemma A (proved here): the weights cached by the real
    place_on_grid equal the spec cell volumes V = wx*wy*wz, which are positive.  The detectors then
    continue with an ARBITRARY positive weight array in place of the cached one (Lemma B is proved
    for all positive weights, in particular for V); this keeps the mean's denominator linear."""
    from vc.obl import prove_arrays_equal

    c = ctx()
    spec = A.SymArray(tuple(sizes), lambda idx: V(*[A._wrap_idx(i) for i in idx]), "real")
    for d in dets:
        prove_arrays_equal(f"cell_volume_weights==wx*wy*wz[{d.name}]", d._cached_cell_volume_weights, spec)
    for x, y, z in cells(sizes):
        c.prove(f"cell_volume>0[{x},{y},{z}]", V(x, y, z) > 0)
    Vf = A.fresh_array("Vcell", tuple(sizes), fact=lambda v, idx: v > 0)
    out = [d.aset("_cached_cell_volume_weights", Vf, create_new_ok=True) for d in dets]
    return out, (lambda x, y, z: Vf.at_index((A._raw_index(x), A._raw_index(y), A._raw_index(z))))


def cells(sizes):
    return list(itertools.product(*[range(n) for n in sizes]))


def wsum(f, wt, sizes):
    tot = 0
    for x, y, z in cells(sizes):
        tot = tot + f(x, y, z) * wt(x, y, z)
    return tot


def key():
    import jax

    return jax.random.PRNGKey(0)


def on_switch(steps=(0,)):
    from fdtdx.core.switch import OnOffSwitch

    return OnOffSwitch(fixed_on_time_steps=list(steps))


def symbolic_schedule(dets, inp=None, name="tab"):
    """Replace the concrete time-step -> row table of already placed detectors by ONE arbitrary
    integer table of symbolic length (shared: the detectors under comparison have the same switch)
    and return (time step as 0-d int array, t, row index k, number of rows L) with 0 <= k < L,
    i.e. the contract of Detector.place_on_grid for an active step (proved under C14)."""
    c = ctx()
    T = sym_int("T", lo=1)
    t = sym_int("t", lo=0)
    c.assume((t + 1 <= T).z)
    tab = A.fresh_array(name, (T,), "int")
    L = sym_int("L", lo=1)
    k = tab.at_index((A._raw_index(t),))
    c.assume((k >= 0).z)
    c.assume((k + 1 <= L).z)
    t_arr = A.SymArray((), lambda idx: t, "int", memo=False)
    out = [d.aset("_time_step_to_arr_idx", tab, create_new_ok=True) for d in dets]
    if inp is not None:
        inp.scalar("t", t)
        inp.scalar("row", k)
    return out, t_arr, t, k, L


def fresh_fields(sizes, kind="real", inp=None, names=("E", "H")):
    E = A.fresh_array(names[0], (3, *sizes), kind)
    H = A.fresh_array(names[1], (3, *sizes), kind)
    if inp is not None:
        inp.array(names[0], E)
        inp.array(names[1], H)
    return E, H


def cmul(a, b):
    return a * b


def re_cross_conj(Ev, Hv, p):
    """spec: component p of Re(E x conj(H)); Ev/Hv are 3-sequences of scalars"""
    q, r = (p + 1) % 3, (p + 2) % 3
    v = Ev[q] * A._conj(Hv[r]) - Ev[r] * A._conj(Hv[q])
    return A._real(v)


def is_repo_exception(e):
    """True iff the exception passed through a frame of the repository under verification (so it was
    raised by repository code, possibly inside a shim it called) and is not an engine signal
    (Unsupported / PathAbort / Undecided keep their own meaning: undecided, infeasible path)."""
    import os

    import vc
    from vc.core import PathAbort, Undecided, Unsupported

    if isinstance(e, (Unsupported, PathAbort, Undecided)):
        return False
    root = os.path.realpath(vc.REPO_SRC) + os.sep
    tb = e.__traceback__
    while tb is not None:
        if os.path.realpath(tb.tb_frame.f_code.co_filename).startswith(root):
            return True
        tb = tb.tb_next
    return False


def note_exception(inp, e):
    import traceback

    where = ""
    for fs in reversed(traceback.extract_tb(e.__traceback__)):
        if "/fdtdx/" in fs.filename:
            where = f" at {fs.filename.split('/fdtdx/', 1)[1]}:{fs.lineno} in {fs.name}"
            break
    inp.note("exception", f"{type(e).__name__}: {e}{where}")


def guarded(name, fn, *a, **kw):
    """call repository code on an in-domain input: -> (True, result), or (False, None) after
    recording the refuted obligation `name` if the repository raised"""
    c = ctx()
    try:
        return True, fn(*a, **kw)
    except Exception as e:  # noqa: BLE001
        if not is_repo_exception(e):
            raise
        note_exception(c.inputs, e)
        c.prove(name, False)
        return False, None


def _run_isolated(outer, inp, label, fn):
    """Run one configuration in its OWN nested session (fresh context and solver per path): a fork
    inside a configuration re-executes only that configuration, hypotheses never leak between
    configurations, and a repository exception on this in-domain use becomes a refuted obligation.
    Obligations / covers / bounded records are forwarded to the task's session (so the harness'
    witness extraction sees them); engine signals (Unsupported, Undecided) propagate."""
    from vc import core

    sub = core.Session(f"{outer.session.name}:{label}", axioms=outer.session.axioms, max_paths=256)
    sub.bounded = outer.session.bounded
    sub.record = lambda ob: outer.session.record(ob)
    sub.record_cover = lambda name, ok: outer.session.record_cover(name, ok)

    def body(cc):
        inp.scalars.clear()
        inp.arrays.clear()
        inp.notes.clear()
        cc.inputs = inp
        orig = cc.prove

        def pr(name, goal, *a, **kw):
            return orig(label + ":" + name, goal, *a, **kw)

        cc.prove = pr
        try:
            fn(cc, inp)
        except Exception as e:  # noqa: BLE001
            # every configuration is an in-domain use of the detectors (valid placement, update on
            # fields of the box shape, post-processing of a well-shaped state): an exception raised by
            # REPOSITORY code there is a refuted obligation (replayed on the real code), not a crash
            if not is_repo_exception(e):
                raise
            note_exception(inp, e)
            cc.prove("no_exception_on_valid_input", False)

    try:
        sub.run(body)
    finally:
        core._CTX[0] = outer
    outer.session.aborted_paths += sub.aborted_paths


def grouped(configs, chunk):
    """Every configuration is a few hundred milliseconds of work but a worker process costs seconds
    to start (jax / fdtdx imports): configurations of one kind are run back to back inside one task,
    each in its own nested session under its own obligation-name prefix."""
    from vc.harness import Task

    by_kind = {}
    for label in configs:
        by_kind.setdefault(label.split("/")[0], []).append(label)
    out = {}
    for kind, labels in by_kind.items():
        for gi in range(0, len(labels), chunk):
            group = labels[gi : gi + chunk]

            def body(c, inp, group=group):
                for label in group:
                    _run_isolated(c, inp, label, configs[label])

            out[f"{kind}/{gi // chunk:02d}"] = Task(body)
    return out


# ---------------------------------------------------------------------------------------
# concrete scenes for replay / bounded end-to-end runs (real JAX)
# ---------------------------------------------------------------------------------------


def real_cfg(nonuniform, grid_shape, widths=None, time_steps=6, seed=0):
    """REAL SimulationConfig (float64) whose time_steps_total is `time_steps`"""
    import jax.numpy as jnp
    import numpy as np

    from fdtdx.config import SimulationConfig
    from fdtdx.core.grid import RectilinearGrid, UniformGrid

    rng = np.random.default_rng(seed)
    if nonuniform:
        edges = []
        for a, n in enumerate(grid_shape):
            w = None if widths is None else widths[a]
            if w is None or len(w) != n or np.any(np.asarray(w) <= 0):
                w = rng.uniform(0.6, 1.7, size=n) * 2e-8
            edges.append(np.concatenate([[0.0], np.cumsum(np.asarray(w, dtype=float))]))
        grid = RectilinearGrid(x_edges=jnp.asarray(edges[0]), y_edges=jnp.asarray(edges[1]), z_edges=jnp.asarray(edges[2]))
    else:
        grid = UniformGrid(spacing=2.5e-8)
    cfg = SimulationConfig(time=1e-15, grid=grid, backend="cpu", dtype=jnp.float64)
    dt = float(cfg.time_step_duration)
    cfg = cfg.aset("time", dt * (time_steps + 0.25))
    assert cfg.time_steps_total == time_steps, (cfg.time_steps_total, time_steps)
    return cfg


def real_widths(cfg, sl):
    import numpy as np

    g = cfg.resolved_grid
    if g is None:
        s = float(cfg.uniform_spacing())
        return [np.full(hi - lo, s) for lo, hi in sl]
    return [np.asarray(g.cell_widths(a))[lo:hi] for a, (lo, hi) in enumerate(sl)]
