"""Deciding equalities between rational functions that contain guarded selections (`jnp.where`).

`prove_rational_equal(c, name, got, want, hyps)` discharges  assumptions & path & hyps => got == want
for scalar values (real or complex SymNum / numbers) in sound steps:

 1. every if-then-else in the two terms whose guard is decided by the hypotheses is replaced by the
    selected branch (an undecided guard is kept: the step only ever simplifies).  Guards of the form
    t == 0 / t != 0 (and Boolean combinations) are decided through the exact ring normal form n/m of
    t:  n the zero polynomial => t == 0;  n = (monomial) * rest with every atom of the monomial and
    `rest` shown non-zero by z3 (small polynomial queries) => t != 0.  Other guards go to z3 directly;
 2. the exact ring normal form of `got - want` (vc.ringnf, optionally reduced modulo proven relations
    `s*s == X`, used for s = sqrt(X)) must be the zero polynomial;
 3. every divisor that was cancelled is shown non-zero by the same n/m argument (inner divisors first);
 4. if step 2 does NOT give the zero polynomial, a concrete rational counterexample is searched
    (ground evaluation by z3 at seeded sample points: a found point is a genuine model of the negated
    obligation and is reported as a refutation with a witness), then the goal is handed to the
    engine's generic route (z3 / cvc5).

Nothing here maps `unknown` to a verdict: undecided steps are reported as status 'unknown'.
"""

from __future__ import annotations

import random
import time
from fractions import Fraction

import z3

from vc import ringnf
from vc.core import Obligation, _num_parts, to_z3_real, zbool

import os

_DEBUG = bool(os.environ.get("C35_DEBUG"))
STEP_TIMEOUT_MS = 10000
GUARD_TIMEOUT_MS = 3000
GENERIC_Z3_MS = 8000
GENERIC_CVC5_MS = 5000
MAX_FAILURES_PER_TASK = 6


def _check(c, hyps, extra, timeout_ms):
    from vc.core import Z3_TIMEOUT_MS

    from vc.core import limited_check

    c.solver.push()
    try:
        for h in hyps:
            c.solver.add(h)
        for e in extra:
            c.solver.add(e)
        _t0 = time.time()
        r = limited_check(c.solver, timeout_ms)  # CPU-time budget
        if _DEBUG:
            print(f"[C35_rational] check {r} {time.time() - _t0:.2f}s (limit {timeout_ms} ms): {str(extra[-1])[:160]!r}", flush=True)
        m = c.solver.model() if r == z3.sat else None
    finally:
        c.solver.pop()
        c.solver.set("timeout", Z3_TIMEOUT_MS)
    return r, m


def _poly_to_z3(poly, cv):
    terms = []
    for mono, coef in poly.t.items():
        t = z3.RealVal(str(coef))
        for atom, exp in mono:
            a = cv.atom_terms[atom]
            a = z3.ToReal(a) if z3.is_int(a) else a
            for _ in range(exp):
                t = t * a
        terms.append(t)
    if not terms:
        return z3.RealVal(0)
    return z3.Sum(terms) if len(terms) > 1 else terms[0]


def _content(poly):
    """(monomial gcd of all terms as {atom: exp}, poly / monomial)"""
    monos = list(poly.t)
    if not monos:
        return {}, poly
    g = dict(monos[0])
    for m in monos[1:]:
        d = dict(m)
        g = {a: min(e, d[a]) for a, e in g.items() if a in d}
    if not g:
        return {}, poly
    out = {}
    for m, coef in poly.t.items():
        d = dict(m)
        for a, e in g.items():
            d[a] -= e
        out[tuple(sorted((a, e) for a, e in d.items() if e > 0))] = coef
    return g, ringnf.Poly(out)


def _is_zero_numeral(b):
    if z3.is_int_value(b):
        return b.as_long() == 0
    if z3.is_rational_value(b):
        return b.numerator_as_long() == 0
    return False


class Rational:
    """shared state of one proof: converter (atoms), proven non-zero facts, decided guards"""

    def __init__(self, c, hyps=(), relations=(), nonzero_terms=()):
        self.c = c
        self.hyps = [zbool(h) for h in hyps]
        self._known_terms = [to_z3_real(_num_parts(t)[0]) for t in nonzero_terms]
        self.hyps += [t != 0 for t in self._known_terms]
        self._known_polys = None
        self._lits = None
        self.relations = []
        for s_term, x_term in relations:
            self.relations.append((s_term, x_term))
            s2 = z3.simplify(s_term)
            if s2.get_id() != s_term.get_id():
                self.relations.append((s2, x_term))
        self.cv = ringnf.Converter()
        self.nz = {}  # term id -> bool (shown non-zero)
        self.nz_tried = set()
        self.facts = []  # z3 facts proven on the way (t != 0), reused as hypotheses
        self.guards = {}
        self.ite_cache = {}

    # -- normal forms --------------------------------------------------------------------
    def _relation_atoms(self):
        """atom index -> numerator polynomial X with atom*atom == X.  An atom matches a relation (s, X)
        if it is s itself, or an application sqrt(arg) whose argument has the same normal form as X
        (z3's simplifier may have re-arranged the argument of the same square root)."""
        out = {}
        for s_term, x in self.relations:
            xn, xd = self.cv.conv(x)
            if not (xd.is_const() and xd.const_value() == 1):
                raise ringnf.TooBig()
            k = self.cv.atoms.get(s_term.get_id())
            if k is not None:
                out[k] = xn
            if not (z3.is_app(s_term) and s_term.decl().name() == "sqrt"):
                continue
            for i, t in enumerate(list(self.cv.atom_terms)):
                if i in out or not (z3.is_app(t) and t.num_args() == 1 and t.decl().name() == "sqrt"):
                    continue
                an, ad = self.cv.conv(t.arg(0))
                if ad.is_const() and ad.const_value() == 1 and (an - xn).is_zero():
                    out[i] = xn
        return out

    def reduce(self, poly):
        if not self.relations:
            return poly
        for k, xn in self._relation_atoms().items():
            if not any(a == k for mono in poly.t for a, _ in mono):
                continue
            out = ringnf.Poly()
            for mono, coef in poly.t.items():
                e = dict(mono).get(k, 0)
                rest = tuple((a, p) for a, p in mono if a != k)
                term = ringnf.Poly({rest: coef})
                for _ in range(e // 2):
                    term = term * xn
                if e % 2:
                    term = term * ringnf.Poly.atom(k)
                out = out + term
            poly = out
        return poly

    def numerator(self, term):
        """-> (reduced numerator polynomial of term, divisors met while converting)"""
        before = set(self.cv.divisors)
        n, _ = self.cv.conv(term)
        new = [d for k, d in self.cv.divisors.items() if k not in before]
        return self.reduce(n), new

    # -- zero / non-zero -------------------------------------------------------------------
    def _z3_nonzero(self, t, timeout):
        r, _ = _check(self.c, self.hyps + self.facts, [t == 0], timeout)
        return r == z3.unsat

    def nonzero(self, term, timeout=STEP_TIMEOUT_MS, cheap=False):
        """term != 0 under the hypotheses?  cheap=True: only the syntactic / monomial argument"""
        k = term.get_id()
        if self.nz.get(k):
            return True
        if (k, cheap) in self.nz_tried:
            return False
        self.nz_tried.add((k, cheap))
        ok = self._nonzero(term, timeout, cheap)
        if ok:
            self.nz[k] = True
            self.facts.append(term != 0)
        return ok

    def known_nonzero(self, poly):
        """is `poly` a non-zero scalar multiple of a polynomial the caller declared non-zero, or of one
        syntactically assumed non-zero in the context (x != 0, x > 0, x < 0)?"""
        if self._known_polys is None:
            self._known_polys = []
            cands = list(self._known_terms)
            for f in list(self.c.assumptions) + list(self.c.pathcond) + self.hyps:
                g, neg = f, False
                while z3.is_not(g):
                    g, neg = g.children()[0], not neg
                if z3.is_app(g) and g.num_args() == 2 and z3.is_arith(g.children()[0]):
                    a, b = g.children()
                    k = g.decl().kind()
                    if (k == z3.Z3_OP_EQ and neg) or (k in (z3.Z3_OP_GT, z3.Z3_OP_LT) and not neg) or (k in (z3.Z3_OP_GE, z3.Z3_OP_LE) and neg):
                        if _is_zero_numeral(b):
                            cands.append(to_z3_real(a))
                        elif _is_zero_numeral(a):
                            cands.append(to_z3_real(b))
            for t in cands:
                try:
                    n, d = self.cv.conv(t)
                    if d.is_const() and not n.is_zero():
                        self._known_polys.append(self.reduce(n))
                except ringnf.TooBig:
                    pass
        for kp in self._known_polys:
            if len(kp.t) != len(poly.t) or set(kp.t) != set(poly.t):
                continue
            m0 = next(iter(kp.t))
            ratio = poly.t[m0] / kp.t[m0]
            if ratio != 0 and all(poly.t[m] == ratio * cc for m, cc in kp.t.items()):
                return True
        return False

    def _atom_nonzero(self, atom, timeout):
        if ("atom", atom) not in self.nz and self.known_nonzero(ringnf.Poly.atom(atom)):
            self.nz[("atom", atom)] = True
        ka = ("atom", atom)
        if ka not in self.nz:
            a = self.cv.atom_terms[atom]
            a = z3.ToReal(a) if z3.is_int(a) else a
            self.nz[ka] = self._z3_nonzero(a, timeout)
            if self.nz[ka]:
                self.facts.append(a != 0)
        return self.nz[ka]

    def _nonzero(self, term, timeout, cheap):
        try:
            n, _ = self.numerator(term)
        except ringnf.TooBig:
            return False if cheap else self._z3_nonzero(term, timeout)
        if n.is_zero():
            return False
        # term = n/m with m a product of divisors occurring inside term: all of them must be fine
        for d in self.inner_divisors(term):
            if d.get_id() != term.get_id() and not self.nonzero(d, timeout, cheap):
                return False
        mono, rest = _content(n)
        for atom in mono:
            if not self._atom_nonzero(atom, min(timeout, GUARD_TIMEOUT_MS)):
                return False
        if rest.is_const():
            return rest.const_value() != 0
        if self.known_nonzero(rest):
            return True
        if cheap:
            return False
        # exact factorisation (computed by sympy, re-multiplied and compared here): every factor != 0
        for f in self.factors(rest):
            if f.is_const():
                if f.const_value() == 0:
                    return False
                continue
            if self.known_nonzero(f):
                continue
            m2, r2 = _content(f)
            if r2.is_const() and all(self._atom_nonzero(a, min(timeout, GUARD_TIMEOUT_MS)) for a in m2):
                continue
            if not self._z3_nonzero(_poly_to_z3(f, self.cv), timeout):
                if _DEBUG:
                    print(f"[C35_rational] factor not shown non-zero: {_poly_to_z3(f, self.cv)}\n   known: {[str(_poly_to_z3(k, self.cv)) for k in self._known_polys]}", flush=True)
                return False
        return True

    def factors(self, poly):
        """-> list of Poly whose product is `poly` (checked with exact arithmetic); [poly] on any doubt"""
        try:
            import sympy

            atoms = sorted({a for mono in poly.t for a, _ in mono})
            if len(poly.t) > 400 or not atoms:
                return [poly]
            syms = {a: sympy.Symbol(f"a{a}") for a in atoms}
            expr = sympy.Add(*[sympy.Rational(c.numerator, c.denominator) * sympy.Mul(*[syms[a] ** e for a, e in mono]) for mono, c in poly.t.items()])
            coeff, facs = sympy.factor_list(expr)
            if _DEBUG:
                print(f"[C35_rational] factor_list: {len(poly.t)} terms -> {[(str(f)[:80], m) for f, m in facs]}", flush=True)
                if len(facs) == 1 and len(poly.t) > 5:
                    print("   atoms:", {a: str(self.cv.atom_terms[a])[:60] for a in atoms}, "\n   expr:", expr, "\n   relations:", [(str(a)[:60], str(b)[:60]) for a, b in self.relations], flush=True)
            out = [ringnf.Poly.const(Fraction(int(sympy.numer(coeff)), int(sympy.denom(coeff))))]
            order = [syms[a] for a in atoms]
            for f, mult in facs:
                fp = sympy.Poly(f, *order)
                t = {}
                for exps, c in fp.terms():
                    mono = tuple((a, e) for a, e in zip(atoms, exps) if e)
                    t[mono] = Fraction(int(sympy.numer(c)), int(sympy.denom(c)))
                out.extend([ringnf.Poly(t)] * int(mult))
            prod = ringnf.Poly.const(1)
            for f in out:
                prod = prod * f
            if not (prod - poly).is_zero():
                if _DEBUG:
                    print("[C35_rational] factorisation product mismatch", flush=True)
                return [poly]
            return out
        except Exception as e:  # noqa: BLE001
            if _DEBUG:
                print(f"[C35_rational] factorisation failed: {e!r}", flush=True)
            return [poly]

    def inner_divisors(self, term):
        out, seen = [], set()

        def go(e):
            k = e.get_id()
            if k in seen:
                return
            seen.add(k)
            if z3.is_app(e) and e.decl().kind() == z3.Z3_OP_DIV:
                den = e.children()[1]
                if not z3.is_rational_value(den) and not z3.is_int_value(den):
                    go(den)
                    out.append(den)
                go(e.children()[0])
                return
            if z3.is_app(e) and e.decl().kind() == z3.Z3_OP_ITE:
                return  # opaque atom
            for ch in e.children():
                go(ch)

        go(term)
        return out

    def is_zero(self, term):
        try:
            n, _ = self.numerator(term)
        except ringnf.TooBig:
            return False
        return n.is_zero()

    # -- guards ----------------------------------------------------------------------------
    def guard(self, g):
        """-> True / False / None (undecided)"""
        k = g.get_id()
        if k not in self.guards:
            self.guards[k] = self._guard(g)
        return self.guards[k]

    def _literal(self, g):
        """is g (or its negation) literally among the assumptions / path condition / hypotheses?"""
        if self._lits is None:
            self._lits = {}
            for f in list(self.c.assumptions) + list(self.c.pathcond) + self.hyps:
                self._lits[z3.simplify(f).get_id()] = True
                self._lits[z3.simplify(z3.Not(f)).get_id()] = False
        return self._lits.get(z3.simplify(g).get_id())

    def _guard(self, g):
        if z3.is_true(g):
            return True
        if z3.is_false(g):
            return False
        lit = self._literal(g)
        if lit is not None:
            return lit
        if z3.is_not(g):
            r = self.guard(g.children()[0])
            return None if r is None else (not r)
        if z3.is_or(g) or z3.is_and(g):
            absorbing = z3.is_or(g)  # Or: one True decides; And: one False decides
            for cheap in (True, False):
                rs = []
                for x in g.children():
                    r = self._guard_atom(x, cheap)
                    if r is absorbing:
                        return absorbing
                    rs.append(r)
                if all(r is (not absorbing) for r in rs):
                    return not absorbing
        else:
            r = self._guard_atom(g, False)
            if r is not None:
                return r
        if _check(self.c, self.hyps + self.facts, [z3.Not(g)], GUARD_TIMEOUT_MS)[0] == z3.unsat:
            return True
        if _check(self.c, self.hyps + self.facts, [g], GUARD_TIMEOUT_MS)[0] == z3.unsat:
            return False
        return None

    def _guard_atom(self, g, cheap):
        """decide (t == 0) / Not(t == 0) through the normal form of t; None if not of that shape / undecided"""
        neg = False
        while z3.is_not(g):
            g, neg = g.children()[0], not neg
        if not (z3.is_eq(g) and z3.is_arith(g.children()[0])):
            if cheap or not (z3.is_or(g) or z3.is_and(g)):
                return None
            r = self.guard(g)
            return None if r is None else (r != neg)
        a, b = g.children()
        t = to_z3_real(a if _is_zero_numeral(b) else (b if _is_zero_numeral(a) else a - b))
        if self.is_zero(t):
            return not neg
        if self.nonzero(t, GUARD_TIMEOUT_MS, cheap):
            return neg
        return None

    def resolve_ites(self, term):
        """env: guards fixed by an enclosing undecided selection (inside the then-branch of If(g, a, b)
        the guard g holds, inside the else-branch it does not)"""
        cache = self.ite_cache

        def strip(g):
            neg = False
            while z3.is_not(g):
                g, neg = g.children()[0], not neg
            return g.get_id(), neg

        def go(e, env):
            k = (e.get_id(), env)
            if k in cache:
                return cache[k]
            if z3.is_app(e) and e.decl().kind() == z3.Z3_OP_ITE:
                g, a, b = e.children()
                g = go(g, env)
                gid, neg = strip(g)
                d = dict(env).get(gid)
                if d is not None:
                    d = d != neg
                else:
                    d = self.guard(g)
                if d is True:
                    r = go(a, env)
                elif d is False:
                    r = go(b, env)
                else:
                    ra = go(a, env + ((gid, not neg),))
                    rb = go(b, env + ((gid, neg),))
                    if ra.get_id() == rb.get_id():
                        r = ra
                    elif z3.is_arith(ra) and self.is_zero(to_z3_real(ra) - to_z3_real(rb)) and all(self.nonzero(dv) for dv in self.inner_divisors(ra) + self.inner_divisors(rb)):
                        r = rb  # both branches denote the same value: the selection is that value
                    else:
                        r = z3.If(g, ra, rb)
            elif z3.is_app(e) and e.num_args() > 0:
                old = e.children()
                ch = [go(x, env) for x in old]
                # rebuild only what contained a resolved selection (keeps term identities stable)
                r = e if all(a.get_id() == b.get_id() for a, b in zip(ch, old)) else e.decl()(*ch)
            else:
                r = e
            cache[k] = r
            return r

        return go(term, ())


def _free_consts(terms):
    seen, out = set(), {}

    def go(e):
        k = e.get_id()
        if k in seen:
            return
        seen.add(k)
        if z3.is_const(e) and e.decl().kind() == z3.Z3_OP_UNINTERPRETED and z3.is_arith(e):
            out[k] = e
        for ch in e.children():
            go(ch)

    for t in terms:
        go(t)
    return list(out.values())


_MAGNITUDES = [Fraction(1, 2), Fraction(1, 3), Fraction(3, 7), Fraction(2, 3), Fraction(1, 5), Fraction(3, 4), Fraction(1, 7), Fraction(5, 6), Fraction(2, 7)]


def _sign_classes(c, hyps):
    """syntactic scan of assumptions / path condition / hypotheses for bounds `v ? 0` on constants"""
    info = {}

    def note(v, kind):
        if z3.is_const(v) and v.decl().kind() == z3.Z3_OP_UNINTERPRETED:
            info.setdefault(v.get_id(), set()).add(kind)

    for f in list(c.assumptions) + list(c.pathcond) + list(hyps):
        g, neg = f, False
        while z3.is_not(g):
            g, neg = g.children()[0], not neg
        if not (z3.is_app(g) and g.num_args() == 2):
            continue
        a, b = g.children()
        k = g.decl().kind()
        flip = False
        if _is_zero_numeral(a):
            a, b, flip = b, a, True
        if not _is_zero_numeral(b):
            continue
        if k == z3.Z3_OP_EQ:
            note(a, "nonzero" if neg else "zero")
            continue
        table = {z3.Z3_OP_GT: "pos", z3.Z3_OP_GE: "nonneg", z3.Z3_OP_LT: "neg", z3.Z3_OP_LE: "nonpos"}
        if k not in table:
            continue
        kind = table[k]
        if flip:
            kind = {"pos": "neg", "neg": "pos", "nonneg": "nonpos", "nonpos": "nonneg"}[kind]
        if neg:
            kind = {"pos": "nonpos", "nonneg": "neg", "neg": "nonneg", "nonpos": "pos"}[kind]
        note(a, kind)
    return info


def find_counterexample(c, goal, hyps, tries=24, seed=0):
    """ground search: fix every free constant to a small rational that respects the sign bounds found in
    the context; a satisfiable instance of assumptions & path & hyps & not goal is a genuine countermodel"""
    rnd = random.Random(seed)
    consts = _free_consts([goal, *hyps, *c.assumptions, *c.pathcond])
    info = _sign_classes(c, hyps)
    for k in range(tries):
        fix = []
        for v in consts:
            kinds = info.get(v.get_id(), set())
            mag = rnd.choice(_MAGNITUDES)
            if "zero" in kinds:
                val = Fraction(0)
            elif "pos" in kinds or ("nonneg" in kinds and (k % 4 != 3 or "nonzero" in kinds)):
                val = mag
            elif "neg" in kinds or ("nonpos" in kinds and (k % 4 != 3 or "nonzero" in kinds)):
                val = -mag
            elif "nonneg" in kinds or "nonpos" in kinds:
                val = Fraction(0)
            else:
                val = mag if rnd.random() < 0.5 else -mag
                if "nonzero" not in kinds and k % 6 == 5 and rnd.random() < 0.3:
                    val = Fraction(0)
            if z3.is_int(v):
                fix.append(v == int(val))
            else:
                fix.append(v == z3.RealVal(str(val)))
        r, m = _check(c, hyps, [*fix, z3.Not(goal)], 3000)
        if r == z3.sat:
            return m
    return None


def _parts(v):
    p = _num_parts(v)
    if p is None:
        raise TypeError(f"not a scalar value: {type(v).__name__}")
    re = to_z3_real(p[0])
    im = to_z3_real(p[1] if p[1] is not None else 0)
    return re, im


def prove_rational_equal(c, name, got, want, hyps=(), relations=(), seed=0, nonzero_terms=()):
    """-> bool.  Records one obligation `name` in the session.  nonzero_terms: values assumed != 0
    (hypotheses of the obligation, given as terms so that they can be matched as polynomial factors)."""
    t0 = time.time()
    R = Rational(c, hyps, relations, nonzero_terms)
    path = "".join("T" if d else "F" for d in c.decisions)
    tag = "abstracted" if c.abstracted else "complete"

    def done(status, backend, model=None, detail=""):
        ob = Obligation(name, status, backend, (time.time() - t0) * 1e3, path, model=model, detail=detail, tag=tag)
        c.session.record(ob)
        if status != "discharged":
            # a task whose obligations keep failing is cut short: the failures found so far are
            # reported (violation / undecided); exploring every remaining path would only repeat them
            n = getattr(c.session, "_rational_failures", 0) + 1
            c.session._rational_failures = n
            if n >= MAX_FAILURES_PER_TASK:
                from vc.core import Undecided

                raise Undecided(f"{n} obligations of this task failed (first failures are reported); task cut short")
        return status == "discharged"

    g_re, g_im = _parts(got)
    w_re, w_im = _parts(want)
    g_re, g_im = R.resolve_ites(g_re), R.resolve_ites(g_im)
    w_re, w_im = R.resolve_ites(w_re), R.resolve_ites(w_im)
    goal = z3.And(g_re == w_re, g_im == w_im)
    identical = True
    try:
        for a, b in ((g_re, w_re), (g_im, w_im)):
            n1, d1 = R.cv.conv(a)
            n2, d2 = R.cv.conv(b)
            if not R.reduce(n1 * d2 - n2 * d1).is_zero():
                identical = False
                break
    except ringnf.TooBig:
        identical = False
    if identical:
        for d in list(R.cv.divisors.values()):
            if not R.nonzero(d):
                return done("unknown", "ring-normal-form", detail=f"divisor not shown non-zero: {str(d)[:200]}")
        return done("discharged", "ring-normal-form+z3(divisors!=0)")
    if _DEBUG:
        def _ites(e, acc, seen):
            if e.get_id() in seen:
                return
            seen.add(e.get_id())
            if z3.is_app(e) and e.decl().kind() == z3.Z3_OP_ITE:
                acc.append(e.children()[0])
            for ch in e.children():
                _ites(ch, acc, seen)
        acc = []
        for t in (g_re, g_im, w_re, w_im):
            _ites(t, acc, set())
        for a_, b_ in ((g_re, w_re), (g_im, w_im)):
            n1, d1 = R.cv.conv(a_); n2, d2 = R.cv.conv(b_)
            dd = R.reduce(n1 * d2 - n2 * d1)
            print("[C35_rational] diff numerator terms:", len(dd.t), str(_poly_to_z3(dd, R.cv))[:600] if len(dd.t) < 30 else "", "\n got:", str(a_)[:1500], "\n want:", str(b_)[:600], flush=True)
        print(f"[C35_rational] {name}: normal forms differ; undecided guards: {[str(a)[:300] for a in acc[:4]]}", flush=True)
    m = find_counterexample(c, goal, R.hyps, seed=seed)
    if m is not None:
        return done("refuted", "ground-evaluation(z3)", model=m)
    # generic route with bounded budgets (a goal that is not a polynomial identity is either simple
    # enough for the solvers to settle quickly or is reported as undecided)
    import vc.core as _core

    saved = (_core.Z3_TIMEOUT_MS, _core.CVC5_TIMEOUT_MS)
    _core.Z3_TIMEOUT_MS, _core.CVC5_TIMEOUT_MS = min(saved[0], GENERIC_Z3_MS), min(saved[1], GENERIC_CVC5_MS)
    try:
        status, backend, model, detail = c._discharge(z3.simplify(goal), R.hyps)
    finally:
        _core.Z3_TIMEOUT_MS, _core.CVC5_TIMEOUT_MS = saved
    return done(status, backend, model, detail)
