"""Deciding equalities between rational functions that contain guarded selections (`jnp.where`).

`prove_rational_equal(c, name, got, want, hyps)` discharges  assumptions /\\ path /\\ hyps => got == want
for scalar values (real or complex SymNum / numbers) in sound steps:

 1. every if-then-else in the two terms whose guard is decided by the hypotheses is replaced by the
    selected branch (an undecided guard is kept: the step only ever simplifies).  Guards of the form
    t == 0 / t != 0 (and Boolean combinations) are decided through the exact ring normal form n/m of
    t:  n the zero polynomial => t == 0;  n = (monomial) * rest with every atom of the monomial and
    `rest` shown non-zero by z3 (small polynomial queries) => t != 0.  Other guards go to z3 directly;
 2. the exact ring normal form of `got - want` (vc.ringnf, optionally reduced modulo proven relations
    `s*s == X`, used for s = sqrt(X)) must be the zero polynomial;
 3. every divisor that was cancelled is shown non-zero by the same n/m argument (inner divisors first);
 4. if step 2 does NOT give the zero polynomial, a concrete rational counterexample is searched
    (ground evaluation by z3 at seeded sample points: a found point is a genuine model of the negated
    obligation and is reported as a refutation with a witness), then the goal is handed to the
    engine's generic route (z3 / cvc5).

Nothing here maps `unknown` to a verdict: undecided steps are reported as status 'unknown'.
"""

from __future__ import annotations

import random
import time
from fractions import Fraction

import z3

from vc import ringnf
from vc.core import Obligation, _num_parts, to_z3_real, zbool

STEP_TIMEOUT_MS = 10000
GUARD_TIMEOUT_MS = 3000


def _check(c, hyps, extra, timeout_ms):
    from vc.core import Z3_TIMEOUT_MS

    c.solver.push()
    c.solver.set("timeout", timeout_ms)
    try:
        for h in hyps:
            c.solver.add(h)
        for e in extra:
            c.solver.add(e)
        r = c.solver.check()
        m = c.solver.model() if r == z3.sat else None
    finally:
        c.solver.pop()
        c.solver.set("timeout", Z3_TIMEOUT_MS)
    return r, m


def _poly_to_z3(poly, cv):
    terms = []
    for mono, coef in poly.t.items():
        t = z3.RealVal(str(coef))
        for atom, exp in mono:
            a = cv.atom_terms[atom]
            a = z3.ToReal(a) if z3.is_int(a) else a
            for _ in range(exp):
                t = t * a
        terms.append(t)
    if not terms:
        return z3.RealVal(0)
    return z3.Sum(terms) if len(terms) > 1 else terms[0]


def _content(poly):
    """(monomial gcd of all terms as {atom: exp}, poly / monomial)"""
    monos = list(poly.t)
    if not monos:
        return {}, poly
    g = dict(monos[0])
    for m in monos[1:]:
        d = dict(m)
        g = {a: min(e, d[a]) for a, e in g.items() if a in d}
    if not g:
        return {}, poly
    out = {}
    for m, coef in poly.t.items():
        d = dict(m)
        for a, e in g.items():
            d[a] -= e
        out[tuple(sorted((a, e) for a, e in d.items() if e > 0))] = coef
    return g, ringnf.Poly(out)


def _is_zero_numeral(b):
    if z3.is_int_value(b):
        return b.as_long() == 0
    if z3.is_rational_value(b):
        return b.numerator_as_long() == 0
    return False


class Rational:
    """shared state of one proof: converter (atoms), proven non-zero facts, decided guards"""

    def __init__(self, c, hyps=(), relations=()):
        self.c = c
        self.hyps = [zbool(h) for h in hyps]
        self.relations = list(relations)
        self.cv = ringnf.Converter()
        self.nz = {}  # term id -> bool (shown non-zero)
        self.facts = []  # z3 facts proven on the way (t != 0), reused as hypotheses
        self.guards = {}
        self.ite_cache = {}

    # -- normal forms --------------------------------------------------------------------
    def reduce(self, poly):
        for s, x in self.relations:
            k = self.cv.atoms.get(s.get_id())
            if k is None:
                continue
            xn, xd = self.cv.conv(x)
            if not (xd.is_const() and xd.const_value() == 1):
                raise ringnf.TooBig()
            out = ringnf.Poly()
            for mono, coef in poly.t.items():
                e = dict(mono).get(k, 0)
                rest = tuple((a, p) for a, p in mono if a != k)
                term = ringnf.Poly({rest: coef})
                for _ in range(e // 2):
                    term = term * xn
                if e % 2:
                    term = term * ringnf.Poly.atom(k)
                out = out + term
            poly = out
        return poly

    def numerator(self, term):
        """-> (reduced numerator polynomial of term, divisors met while converting)"""
        before = set(self.cv.divisors)
        n, _ = self.cv.conv(term)
        new = [d for k, d in self.cv.divisors.items() if k not in before]
        return self.reduce(n), new

    # -- zero / non-zero -------------------------------------------------------------------
    def _z3_nonzero(self, t, timeout):
        r, _ = _check(self.c, self.hyps + self.facts, [t == 0], timeout)
        return r == z3.unsat

    def nonzero(self, term, timeout=STEP_TIMEOUT_MS):
        k = term.get_id()
        if k in self.nz:
            return self.nz[k]
        self.nz[k] = False  # guards against cycles
        ok = self._nonzero(term, timeout)
        self.nz[k] = ok
        if ok:
            self.facts.append(term != 0)
        return ok

    def _nonzero(self, term, timeout):
        try:
            n, _ = self.numerator(term)
        except ringnf.TooBig:
            return self._z3_nonzero(term, timeout)
        if n.is_zero():
            return False
        # term = n/m with m a product of divisors occurring inside term: all of them must be fine
        for d in self.inner_divisors(term):
            if d.get_id() != term.get_id() and not self.nonzero(d, timeout):
                return False
        mono, rest = _content(n)
        for atom in mono:
            a = self.cv.atom_terms[atom]
            a = z3.ToReal(a) if z3.is_int(a) else a
            ka = ("atom", atom)
            if ka not in self.nz:
                self.nz[ka] = self._z3_nonzero(a, timeout)
                if self.nz[ka]:
                    self.facts.append(a != 0)
            if not self.nz[ka]:
                return self._z3_nonzero(term, timeout)
        if rest.is_const():
            return rest.const_value() != 0
        if self._z3_nonzero(_poly_to_z3(rest, self.cv), timeout):
            return True
        return self._z3_nonzero(term, timeout)

    def inner_divisors(self, term):
        out, seen = [], set()

        def go(e):
            k = e.get_id()
            if k in seen:
                return
            seen.add(k)
            if z3.is_app(e) and e.decl().kind() == z3.Z3_OP_DIV:
                den = e.children()[1]
                if not z3.is_rational_value(den) and not z3.is_int_value(den):
                    go(den)
                    out.append(den)
                go(e.children()[0])
                return
            if z3.is_app(e) and e.decl().kind() == z3.Z3_OP_ITE:
                return  # opaque atom
            for ch in e.children():
                go(ch)

        go(term)
        return out

    def is_zero(self, term):
        try:
            n, _ = self.numerator(term)
        except ringnf.TooBig:
            return False
        return n.is_zero()

    # -- guards ----------------------------------------------------------------------------
    def guard(self, g):
        """-> True / False / None (undecided)"""
        k = g.get_id()
        if k not in self.guards:
            self.guards[k] = self._guard(g)
        return self.guards[k]

    def _guard(self, g):
        if z3.is_true(g):
            return True
        if z3.is_false(g):
            return False
        if z3.is_not(g):
            r = self.guard(g.children()[0])
            return None if r is None else (not r)
        if z3.is_or(g):
            rs = [self.guard(x) for x in g.children()]
            if any(r is True for r in rs):
                return True
            if all(r is False for r in rs):
                return False
        elif z3.is_and(g):
            rs = [self.guard(x) for x in g.children()]
            if any(r is False for r in rs):
                return False
            if all(r is True for r in rs):
                return True
        elif z3.is_eq(g) and z3.is_arith(g.children()[0]):
            a, b = g.children()
            t = a if _is_zero_numeral(b) else a - b
            t = to_z3_real(t)
            if self.is_zero(t):
                return True
            if self.nonzero(t, GUARD_TIMEOUT_MS):
                return False
            return None
        if _check(self.c, self.hyps + self.facts, [z3.Not(g)], GUARD_TIMEOUT_MS)[0] == z3.unsat:
            return True
        if _check(self.c, self.hyps + self.facts, [g], GUARD_TIMEOUT_MS)[0] == z3.unsat:
            return False
        return None

    def resolve_ites(self, term):
        cache = self.ite_cache

        def go(e):
            k = e.get_id()
            if k in cache:
                return cache[k]
            if z3.is_app(e) and e.decl().kind() == z3.Z3_OP_ITE:
                g, a, b = e.children()
                g = go(g)
                d = self.guard(g)
                if d is True:
                    r = go(a)
                elif d is False:
                    r = go(b)
                else:
                    r = z3.If(g, go(a), go(b))
            elif z3.is_app(e) and e.num_args() > 0:
                ch = [go(x) for x in e.children()]
                r = e.decl()(*ch)
            else:
                r = e
            cache[k] = r
            return r

        return go(term)


def _free_consts(terms):
    seen, out = set(), {}

    def go(e):
        k = e.get_id()
        if k in seen:
            return
        seen.add(k)
        if z3.is_const(e) and e.decl().kind() == z3.Z3_OP_UNINTERPRETED and z3.is_arith(e):
            out[k] = e
        for ch in e.children():
            go(ch)

    for t in terms:
        go(t)
    return list(out.values())


_SAMPLE_VALUES = [Fraction(0), Fraction(1), Fraction(1, 2), Fraction(3, 7), Fraction(2), Fraction(5, 4), Fraction(-1), Fraction(-2, 3), Fraction(1, 3), Fraction(7, 5), Fraction(3)]


def find_counterexample(c, goal, hyps, tries=40, seed=0):
    """ground search: fix every free constant to a small rational; a satisfiable instance of
    assumptions /\\ path /\\ hyps /\\ not goal is a genuine countermodel"""
    rnd = random.Random(seed)
    consts = _free_consts([goal, *hyps, *c.assumptions, *c.pathcond])
    for k in range(tries):
        fix = []
        for i, v in enumerate(consts):
            val = rnd.choice(_SAMPLE_VALUES) if k else Fraction(1, 2) + Fraction(i, 7)
            if k % 3 == 1:
                val = abs(val) / 4  # small positive values satisfy most range preconditions
            if z3.is_int(v):
                fix.append(v == int(val))
            else:
                fix.append(v == z3.RealVal(str(val)))
        r, m = _check(c, hyps, [*fix, z3.Not(goal)], 3000)
        if r == z3.sat:
            return m
    return None


def _parts(v):
    p = _num_parts(v)
    if p is None:
        raise TypeError(f"not a scalar value: {type(v).__name__}")
    re = to_z3_real(p[0])
    im = to_z3_real(p[1] if p[1] is not None else 0)
    return re, im


def prove_rational_equal(c, name, got, want, hyps=(), relations=(), seed=0):
    """-> bool.  Records one obligation `name` in the session."""
    t0 = time.time()
    R = Rational(c, hyps, relations)
    path = "".join("T" if d else "F" for d in c.decisions)
    tag = "abstracted" if c.abstracted else "complete"

    def done(status, backend, model=None, detail=""):
        ob = Obligation(name, status, backend, (time.time() - t0) * 1e3, path, model=model, detail=detail, tag=tag)
        c.session.record(ob)
        return status == "discharged"

    g_re, g_im = _parts(got)
    w_re, w_im = _parts(want)
    g_re, g_im = R.resolve_ites(g_re), R.resolve_ites(g_im)
    w_re, w_im = R.resolve_ites(w_re), R.resolve_ites(w_im)
    goal = z3.And(g_re == w_re, g_im == w_im)
    identical = True
    try:
        for a, b in ((g_re, w_re), (g_im, w_im)):
            n1, d1 = R.cv.conv(a)
            n2, d2 = R.cv.conv(b)
            if not R.reduce(n1 * d2 - n2 * d1).is_zero():
                identical = False
                break
    except ringnf.TooBig:
        identical = False
    if identical:
        for d in list(R.cv.divisors.values()):
            if not R.nonzero(d):
                return done("unknown", "ring-normal-form", detail=f"divisor not shown non-zero: {str(d)[:200]}")
        return done("discharged", "ring-normal-form+z3(divisors!=0)")
    m = find_counterexample(c, goal, R.hyps, seed=seed)
    if m is not None:
        return done("refuted", "ground-evaluation(z3)", model=m)
    status, backend, model, detail = c._discharge(z3.simplify(goal), R.hyps)
    return done(status, backend, model, detail)
