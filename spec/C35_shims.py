"""Small extra shims used by props/C35.py, props/C36.py and props/C39.py.

`fdtdx.dispersion` and `fdtdx.materials` do their set-up arithmetic with *numpy* on Python floats
(`np.zeros(..., float64)` buffers filled by item assignment, `np.outer`, `np.asarray(tuple)`), with
the builtin `complex` and with `math.isclose`.  The engine's standard patch set (jnp/jax/math/
isinstance/float) does not cover those, so the checks rebind three more module globals through
`Task(extra_patch=...)`:

  np       -> `sym_np()`: the REAL numpy module, except that float/complex buffers are created with
              dtype=object.  numpy then performs exactly the same indexing / assignment / broadcasting
              / ufunc dispatch as for float64, but calls the Python operators of the elements, so
              symbolic scalars (`SymNum`) flow through unchanged and concrete floats stay floats.
              `np.linalg.det` of a 3x3 object matrix is the cofactor expansion; `.max()` of an object
              buffer is a symbolic max (no forking).
  complex  -> `sym_complex`: `complex(x)` of a symbolic value is the value itself, `complex(re, im)`
              builds a symbolic complex number; `isinstance(x, complex)` keeps its meaning.
  math     -> `math_with_isclose()`: the engine's math shim plus the exact definition of
              `math.isclose(a, b, rel_tol=1e-9, abs_tol=0.0)`:  |a-b| <= max(rel_tol*max(|a|,|b|), abs_tol).
"""

from __future__ import annotations

import builtins
import math as _math
import types

import numpy as _np

from vc import array as A
from vc.core import SymBool, SymNum, sym_max

# ---------------------------------------------------------------------------------------
# complex
# ---------------------------------------------------------------------------------------


class _ComplexMeta(type):
    def __instancecheck__(cls, obj):
        if builtins.isinstance(obj, SymNum):
            return obj.im is not None
        return builtins.isinstance(obj, complex)

    def __subclasscheck__(cls, sub):
        return issubclass(sub, complex)


class sym_complex(metaclass=_ComplexMeta):
    """stands in for the builtin `complex` inside the patched modules"""

    def __new__(cls, re=0.0, im=None):
        if builtins.isinstance(re, A.SymArray):
            re = re.item()
        if builtins.isinstance(im, A.SymArray):
            im = im.item()
        if im is None:
            if builtins.isinstance(re, SymNum):
                return re
            if builtins.isinstance(re, SymBool):
                return re._num()
            return complex(re)
        if builtins.isinstance(re, SymNum) or builtins.isinstance(im, SymNum):
            # complex(a, b) == a + b*1j for real a, b
            for part in (re, im):
                if builtins.isinstance(part, SymNum) and part.im is not None:
                    raise TypeError("complex() argument is already complex")
            return re + im * 1j
        return complex(re, im)


# ---------------------------------------------------------------------------------------
# numpy with object buffers
# ---------------------------------------------------------------------------------------


def _has_sym(x):
    if builtins.isinstance(x, (SymNum, SymBool, A.SymArray)):
        return True
    if builtins.isinstance(x, (list, tuple)):
        return any(_has_sym(e) for e in x)
    if builtins.isinstance(x, _np.ndarray) and x.dtype == object:
        return any(builtins.isinstance(e, (SymNum, SymBool)) for e in x.ravel())
    return False


class ObjBuf(_np.ndarray):
    """object-dtype ndarray whose reductions that would need a total order are symbolic"""

    def max(self, axis=None, **kw):  # noqa: A003
        if axis is not None:
            raise A.Unsupported("ObjBuf.max with axis")
        vals = list(_np.asarray(self).ravel())
        r = vals[0]
        for v in vals[1:]:
            r = sym_max(r, v) if (A.is_sym(r) or A.is_sym(v)) else builtins.max(r, v)
        return r


def _obj(arr):
    return _np.asarray(arr, dtype=object).view(ObjBuf)


def _is_float_dtype(dtype):
    if dtype is None:
        return True
    try:
        return _np.dtype(dtype).kind in "fc"
    except TypeError:
        return False


def _zeros(shape, dtype=None, **kw):
    if not _is_float_dtype(dtype):
        return _np.zeros(shape, dtype=dtype, **kw)
    out = _np.empty(shape, dtype=object)
    out[...] = 0j if (dtype is not None and _np.dtype(dtype).kind == "c") else 0.0
    return out.view(ObjBuf)


def _asarray(x, dtype=None, **kw):
    if _has_sym(x):
        if builtins.isinstance(x, A.SymArray):
            raise A.Unsupported("np.asarray of a SymArray")
        return _obj(_np.array(x, dtype=object))
    if builtins.isinstance(x, _np.ndarray) and x.dtype == object:
        return x
    return _np.asarray(x, dtype=dtype, **kw)


def _det(m):
    m = _np.asarray(m)
    if m.dtype != object:
        return _np.linalg.det(m)
    if m.shape != (3, 3):
        raise A.Unsupported(f"det of object matrix with shape {m.shape}")
    a, b, c = m[0]
    d, e, f = m[1]
    g, h, i = m[2]
    return a * (e * i - f * h) - b * (d * i - f * g) + c * (d * h - e * g)


_NP = [None]


def sym_np():
    if _NP[0] is not None:
        return _NP[0]

    class _Np(types.ModuleType):
        def __getattr__(self, name):
            return getattr(_np, name)

    ns = _Np("symnp")
    ns.zeros = _zeros
    ns.asarray = _asarray
    ns.array = _asarray
    ns.zeros_like = lambda a, dtype=None, **k: _zeros(_np.shape(a), dtype if dtype is not None else (None if _np.asarray(a).dtype == object else _np.asarray(a).dtype))

    class _Lin(types.ModuleType):
        def __getattr__(self, name):
            return getattr(_np.linalg, name)

    lin = _Lin("symnp.linalg")
    lin.det = _det
    ns.linalg = lin
    _NP[0] = ns
    return ns


# ---------------------------------------------------------------------------------------
# math.isclose
# ---------------------------------------------------------------------------------------


def sym_isclose(a, b, *, rel_tol=1e-09, abs_tol=0.0):
    """CPython's definition (Modules/mathmodule.c, PEP 485) on finite values:
    a == b  or  |a-b| <= max(rel_tol*max(|a|,|b|), abs_tol)."""
    if not (A.is_sym(a) or A.is_sym(b)):
        return _math.isclose(a, b, rel_tol=rel_tol, abs_tol=abs_tol)
    diff = abs(a - b)
    bound = sym_max(rel_tol * sym_max(abs(a), abs(b)), abs_tol)
    return diff <= bound


_MATH = [None]


def math_with_isclose():
    if _MATH[0] is None:
        from vc.shims import shim_objects

        base = shim_objects()["math"]
        ns = types.ModuleType("symmath+isclose")
        for k, v in base.__dict__.items():
            if not k.startswith("__"):
                setattr(ns, k, v)
        ns.isclose = sym_isclose
        _MATH[0] = ns
    return _MATH[0]
