"""Loop contract for the solver's time loops (shared by C05, C06, C07).   DESIGN.md 2.5 item 4.

The time loops of fdtdx.fdtd.fdtd are `eqxi.while_loop(cond_fun, body_fun, init_val, max_steps=..)`
calls.  They are NOT executed.  `LoopHarness.install()` rebinds, in the module fdtdx.fdtd.fdtd,

  eqxi      -> a stub whose `while_loop` applies the WHILE RULE with the documented contract of the
               primitive (equinox.internal.while_loop, kinds "lax"/"checkpointed"):

                   result = body^n(init)   with   0 <= n,  n <= max_steps (when given),
                   for all j < n:  cond(body^j(init)),            (every executed step was enabled)
                   n < max_steps (or no bound)  ==>  not cond(body^n(init))   (it stops only there)

               i.e. n is the FIRST j at which cond fails or the bound is hit.  The stub evaluates the
               REAL cond_fun / body_fun it was handed on generic states to obtain those formulas.
  forward   -> a recording stub with the contract of one solver step
                   forward((t, X), **flags) = (t + 1, Step_flags(t, X))   materials of X unchanged
               (counter/frame part proved on the real forward in C05 task `forward/contract`).
  jax       -> the symbolic jax shim plus `custom_vjp` (primal call = the decorated function).

States are REAL ArrayContainers.  The container returned for "n body applications from origin O
starting at step t0" has fresh (havocked) symbolic arrays for every time-dependent leaf, the very
material leaves of O, and a ghost tag (`Iter`) recording (O, t0, n, flags).  By the iteration lemma
(L7: body^m(body^n(x)) = body^(n+m)(x), Function.iterate_add_apply) a loop started on such a
container whose step counter equals t0 + n extends the tag to n + m; that equation is an obligation.
"""

from __future__ import annotations

import types

import z3

from vc import array as A
from vc.array import SymArray
from vc.core import SymBool, SymNum, Unsupported, ctx, v_eq, zbool
from vc.obl import prove_arrays_equal, sym_int

DYNAMIC_FIELDS = ("E", "H", "psi_E", "psi_H", "dispersive_P_curr", "dispersive_P_prev")
MATERIAL_LEAVES = (
    "inv_permittivities",
    "inv_permeabilities",
    "electric_conductivity",
    "magnetic_conductivity",
    "dispersive_c1",
    "dispersive_c2",
    "dispersive_c3",
    "dispersive_c4",
    "initial_inv_permittivities",
)


class Iter:
    """ghost value: body^n applied to `origin`, the first application at step counter t0"""

    def __init__(self, origin, t0, n, sig):
        self.origin, self.t0, self.n, self.sig = origin, t0, n, sig


class Token:
    """opaque non-array leaf (e.g. a recording state) carrying a ghost tag"""

    def __init__(self, ghost):
        self._ghost = ghost


def scalar(x):
    """0-d array / python / symbolic scalar -> scalar value"""
    if isinstance(x, SymArray):
        return x.item()
    try:
        import jax

        if isinstance(x, jax.Array):
            return x.item()
    except ImportError:  # pragma: no cover
        pass
    return x


def as_cond(x):
    x = scalar(x)
    if isinstance(x, SymNum):
        x = x != 0
    if isinstance(x, (bool, SymBool)):
        return x
    if isinstance(x, int):
        return bool(x)
    raise Unsupported(f"loop condition of type {type(x).__name__}")


def same(a, b):
    """syntactic sameness of two leaves/subtrees up to the shallow copies made by TreeClass.aset"""
    if a is b:
        return True
    if isinstance(a, SymArray) and isinstance(b, SymArray):
        return a._fn is b._fn and a.kind == b.kind and len(a.shape) == len(b.shape) and all(A._dim_same_syntactic(p, q) for p, q in zip(a.shape, b.shape))
    if isinstance(a, Token) and isinstance(b, Token):
        return a._ghost is b._ghost or a._ghost == b._ghost
    if isinstance(a, dict) and isinstance(b, dict):
        return list(a) == list(b) and all(same(a[k], b[k]) for k in a)
    if isinstance(a, (tuple, list)) and type(a) is type(b):
        return len(a) == len(b) and all(same(x, y) for x, y in zip(a, b))
    if isinstance(a, (bool, int, float, str)) and isinstance(b, (bool, int, float, str)):
        return type(a) is type(b) and a == b
    if isinstance(a, SymNum) and isinstance(b, SymNum):
        return a.im is None and b.im is None and z3.is_expr(a.re) and z3.is_expr(b.re) and a.re.eq(b.re)
    if a is None or b is None or type(a) is not type(b):
        return False
    # pytree classes (TreeClass): same structure and same leaves
    try:
        import jax

        leaf = lambda x: isinstance(x, (SymArray, Token, SymNum))  # noqa: E731
        la, ta = jax.tree.flatten(a, is_leaf=leaf)
        lb, tb = jax.tree.flatten(b, is_leaf=leaf)
    except Exception:  # noqa: BLE001
        return False
    if ta != tb or len(la) != len(lb) or (len(la) == 1 and la[0] is a):
        return False
    return all(same(x, y) for x, y in zip(la, lb))


def same_num(a, b):
    r = v_eq(a, b)
    return r is True or (isinstance(r, SymBool) and ctx().implied(r.z))


def _is_int_valued(x):
    return (isinstance(x, int) and not isinstance(x, bool)) or (isinstance(x, SymNum) and x.is_int)


def _tree_leaves_with_path(tree, prefix):
    """(path, leaf) over dict/tuple/list nests (SymArray / other objects are leaves)"""
    if isinstance(tree, dict):
        for k in tree:
            yield from _tree_leaves_with_path(tree[k], f"{prefix}[{k}]")
    elif isinstance(tree, (tuple, list)):
        for i, v in enumerate(tree):
            yield from _tree_leaves_with_path(v, f"{prefix}[{i}]")
    else:
        yield prefix, tree


def _tree_map_with_path(f, tree, prefix):
    if isinstance(tree, dict):
        return {k: _tree_map_with_path(f, tree[k], f"{prefix}[{k}]") for k in tree}
    if isinstance(tree, tuple):
        return tuple(_tree_map_with_path(f, v, f"{prefix}[{i}]") for i, v in enumerate(tree))
    if isinstance(tree, list):
        return [_tree_map_with_path(f, v, f"{prefix}[{i}]") for i, v in enumerate(tree)]
    return f(prefix, tree)


def dynamic_leaves(arrays):
    """(path, leaf) of every time-dependent leaf of an ArrayContainer"""
    for nm in DYNAMIC_FIELDS:
        yield from _tree_leaves_with_path(getattr(arrays.fields, nm), f"fields.{nm}")
    yield from _tree_leaves_with_path(arrays.detector_states, "detector_states")
    yield "recording_state", arrays.recording_state


def havoc_container(origin, ghost, label):
    """container with the materials of `origin` and fresh arrays (same shapes/kinds) for every
    time-dependent leaf, each tagged with (ghost, path)"""

    def fresh(path, leaf):
        if leaf is None:
            return None
        if isinstance(leaf, SymArray):
            a = A.fresh_array(f"{label}:{path}", leaf.shape, leaf.kind)
            a._ghost = (ghost, path)
            return a
        t = Token((ghost, path))
        return t

    out = origin
    new_fields = origin.fields
    for nm in DYNAMIC_FIELDS:
        new_fields = new_fields.aset(nm, _tree_map_with_path(fresh, getattr(origin.fields, nm), f"fields.{nm}"))
    out = out.aset("fields", new_fields)
    out = out.aset("detector_states", _tree_map_with_path(fresh, origin.detector_states, "detector_states"))
    out = out.aset("recording_state", fresh("recording_state", origin.recording_state))
    return out


def ghost_of(arrays):
    """the ghost tag shared by ALL time-dependent leaves of `arrays` (each at its own path) and
    materials identical to the tag's origin; None if the container is not such a value"""
    g = None
    try:
        leaves = list(dynamic_leaves(arrays))
    except AttributeError:
        return None
    seen = False
    for path, leaf in leaves:
        if leaf is None:
            continue
        tag = getattr(leaf, "_ghost", None)
        if tag is None or tag[1] != path:
            return None
        if g is None:
            g = tag[0]
        elif g is not tag[0]:
            return None
        seen = True
    if not seen:
        return None
    origin = g.origin if isinstance(g, Iter) else getattr(g, "origin", None)
    if origin is not None:
        for nm in MATERIAL_LEAVES:
            if not same(getattr(arrays, nm, None), getattr(origin, nm, None)):
                return None
    return g


class _Probe:
    def __init__(self, origin):
        self.origin = origin


class ForwardCall:
    def __init__(self, state, sig, result):
        self.state, self.sig, self.result = state, sig, result


class CustomVJP:
    """assumed contract of jax.custom_vjp: calling the decorated function evaluates the primal"""

    def __init__(self, fun):
        self.fun = fun
        self.fwd = self.bwd = None

    def defvjp(self, fwd, bwd, **kw):
        self.fwd, self.bwd = fwd, bwd

    def __call__(self, *a, **k):
        return self.fun(*a, **k)


class _JaxPlus(types.ModuleType):
    def __init__(self, base):
        super().__init__("symjax+custom_vjp")
        self.__dict__["_base"] = base
        self.__dict__["custom_vjp"] = CustomVJP

    def __getattr__(self, name):
        return getattr(self.__dict__["_base"], name)


class LoopHarness:
    """see module docstring.  Use:   with LoopHarness() as L: ... call the real driver ..."""

    def __init__(self, patch_int=True):
        self.calls = []  # one record per while_loop call
        self.fwd_log = []
        self.patch_int = patch_int
        self._saved = None
        self._k = 0

    # -- installation ----------------------------------------------------------------------
    def __enter__(self):
        import fdtdx.fdtd.fdtd as F
        from vc import shims

        self._F = F
        names = {"eqxi": types.SimpleNamespace(while_loop=self.while_loop), "forward": self.forward, "jax": _JaxPlus(F.__dict__["jax"])}
        if self.patch_int:
            names["int"] = shims.sym_int
        self._saved = [(nm, nm in F.__dict__, F.__dict__.get(nm)) for nm in names]
        F.__dict__.update(names)
        return self

    def __exit__(self, *exc):
        for nm, had, old in reversed(self._saved):
            if had:
                self._F.__dict__[nm] = old
            else:
                self._F.__dict__.pop(nm, None)
        return False

    # -- forward contract stub -------------------------------------------------------------
    def forward(self, state, config, objects, key, record_detectors, record_boundaries, simulate_boundaries):
        t, arrays = state
        sig = {"config": config, "objects": objects, "key": key, "record_detectors": record_detectors, "record_boundaries": record_boundaries, "simulate_boundaries": simulate_boundaries}
        origin = arrays
        g = ghost_of(arrays)
        if g is not None and getattr(g, "origin", None) is not None:
            origin = g.origin
        res_arrays = havoc_container(origin, _Probe(origin), f"step{len(self.fwd_log)}")
        result = (t + 1, res_arrays)
        self.fwd_log.append(ForwardCall(state, sig, result))
        return result

    # -- the while rule --------------------------------------------------------------------
    def while_loop(self, cond_fun=None, body_fun=None, init_val=None, *, max_steps=None, buffers=None, kind=None, checkpoints=None, base=16):
        c = ctx()
        k = self._k
        self._k += 1
        pre = f"loop{k}"
        rec = {"cond_fun": cond_fun, "body_fun": body_fun, "init_val": init_val, "max_steps": max_steps, "kind": kind, "checkpoints": checkpoints}
        self.calls.append(rec)
        c.prove(f"{pre}/pre:kind_is_a_forward_loop", kind in ("lax", "checkpointed") and buffers is None)
        c.prove(f"{pre}/pre:max_steps_integer_or_None", max_steps is None or _is_int_valued(max_steps))
        c.prove(f"{pre}/pre:carry_is_(step,arrays)", isinstance(init_val, tuple) and len(init_val) == 2)
        t_init, arrs = init_val
        t0 = scalar(t_init)
        g = ghost_of(arrs)
        if isinstance(g, Iter):
            it = g
            # iteration lemma L7 applies iff the carried step counter is the state's own time
            c.prove(f"{pre}/pre:step_counter_continues_state", v_eq(t0, it.t0 + it.n))
        else:
            it = Iter(arrs, t0, 0, None)
        rec["iter_in"] = it
        rec["t0"] = t0

        # body: exactly one forward step on the carried state
        tp = sym_int(f"{pre}.tp")
        probe_arrays = havoc_container(it.origin, _Probe(it.origin), f"{pre}.probe")
        probe = (A.asarray(tp), probe_arrays)
        n_before = len(self.fwd_log)
        out = body_fun(probe)
        new_calls = self.fwd_log[n_before:]
        ok = len(new_calls) == 1 and new_calls[0].state is probe and out is new_calls[0].result
        c.prove(f"{pre}/body:is_one_forward_step_on_the_carry", ok)
        if not ok:
            raise Unsupported("loop body is not a single forward step on the carried state")
        sig = new_calls[0].sig
        rec["sig"] = sig
        if it.sig is not None:
            c.prove(f"{pre}/body:same_step_function_as_previous_segment", same_sig(sig, it.sig))

        # while rule
        n = sym_int(f"{pre}.n", lo=0)
        rec["n"] = n
        if max_steps is not None:
            c.assume(zbool(n <= max_steps))

        def state_after(j, label):
            itj = Iter(it.origin, it.t0, it.n + j, sig)
            return (A.asarray(t0 + j), havoc_container(it.origin, itj, f"{pre}.{label}")), itj

        s_last, _ = state_after(n - 1, "last")
        g_last = as_cond(cond_fun(s_last))
        c.assume(z3.Implies(zbool(n > 0), zbool(g_last)))
        jg = sym_int(f"{pre}.j", lo=0)
        s_j, _ = state_after(jg, "any")
        g_j = as_cond(cond_fun(s_j))
        c.assume(z3.Implies(zbool(jg < n), zbool(g_j)))
        s_end, it_end = state_after(n, "end")
        g_end = as_cond(cond_fun(s_end))
        if max_steps is None:
            c.assume(z3.Not(zbool(g_end)))
        else:
            c.assume(z3.Implies(zbool(n < max_steps), z3.Not(zbool(g_end))))
        rec["cond_last"], rec["cond_end"], rec["state_end"], rec["iter_out"] = g_last, g_end, s_end, it_end
        return s_end


def same_sig(a, b, ignore=()):
    for kk in ("config", "objects", "key"):
        if kk in ignore:
            continue
        if a[kk] is not b[kk]:
            return False
    for kk in ("record_detectors", "record_boundaries", "simulate_boundaries"):
        if kk in ignore:
            continue
        if a[kk] is not b[kk] and a[kk] != b[kk]:
            return False
    return True


def prove_same_leaf(name, a, b):
    c = ctx()
    if same(a, b):
        return c.prove(name, True)
    if isinstance(a, SymArray) and isinstance(b, SymArray):
        return prove_arrays_equal(name, a, b)
    if isinstance(a, SymArray) or isinstance(b, SymArray):
        return c.prove(name, False)
    if isinstance(a, (dict, tuple, list)) and type(a) is type(b):
        la, lb = list(_tree_leaves_with_path(a, "")), list(_tree_leaves_with_path(b, ""))
        if [p for p, _ in la] != [p for p, _ in lb]:
            return c.prove(name, False)
        ok = True
        for (p, x), (_, y) in zip(la, lb):
            ok &= prove_same_leaf(f"{name}{p}", x, y)
        return ok
    try:
        return c.prove(name, bool(a == b))
    except Exception:  # noqa: BLE001
        return c.prove(name, False)


def prove_same_container(name, X, Y, skip=()):
    """leaf-wise equality of two ArrayContainers (values, not identity)"""
    ok = True
    for nm in DYNAMIC_FIELDS:
        if f"fields.{nm}" in skip:
            continue
        ok &= prove_same_leaf(f"{name}:fields.{nm}", getattr(X.fields, nm), getattr(Y.fields, nm))
    for nm in ("detector_states", "recording_state", *MATERIAL_LEAVES):
        if nm in skip:
            continue
        ok &= prove_same_leaf(f"{name}:{nm}", getattr(X, nm), getattr(Y, nm))
    return ok


def prove_is_reset_of(name, R, A0):
    """R is what the property calls a reset of A0: every time-dependent array is zero (same shape),
    materials are A0's, the recording state is kept"""
    from vc.obl import prove_pointwise, prove_same_shape

    c = ctx()
    ok = True
    la = [(p, x) for p, x in dynamic_leaves(A0) if p != "recording_state"]
    lr = [(p, x) for p, x in dynamic_leaves(R) if p != "recording_state"]
    ok &= c.prove(f"{name}:same_structure", [p for p, _ in la] == [p for p, _ in lr])
    if not ok:
        return False
    for (p, x), (_, r) in zip(la, lr):
        if x is None:
            ok &= c.prove(f"{name}:{p}:None_kept", r is None)
            continue
        if not isinstance(r, SymArray):
            ok &= c.prove(f"{name}:{p}:is_array", False)
            continue
        ok &= prove_same_shape(f"{name}:{p}", r, x)
        ok &= prove_pointwise(f"{name}:{p}:zero", r, lambda v, idx: v_eq(v, 0))
    for nm in MATERIAL_LEAVES:
        ok &= prove_same_leaf(f"{name}:{nm}:kept", getattr(R, nm), getattr(A0, nm))
    ok &= c.prove(f"{name}:recording_state:kept", same(R.recording_state, A0.recording_state))
    return ok
