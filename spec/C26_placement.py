"""Shared specification layer for C26 / C27 (object placement).

Contents
  * `SpecGrid`: a RectilinearGrid stand-in for a UNIFORM grid with symbolic cell counts.  The real
    `RectilinearGrid` placement helpers (`coord_to_index`, `bounds_for_center`, `anchor_coordinate`,
    `bounds_for_anchor`, `axis_extent`, `length_to_cell_count`) index numpy edge arrays and take
    `np.argmin` over candidate intervals, which needs concrete integers; their documented contract
    ("closest edge / closest admissible interval, first minimiser on ties", property C37) is what the
    stand-in returns.  `grid_stub_cases` compares the stand-in with the real RectilinearGrid on
    enumerated concrete cases (bounded, labelled as such).
  * the PROPERTY-TEXT oracle `constraint_holds` / `placement_post`: what "every constraint holds
    for the final grid slices up to nearest-edge snapping" means, written without reference to
    the solver (works on Python numbers and on symbolic values alike).
  * builders of small constraint systems from plain-data descriptions with a value provider
    (symbolic inputs while proving, witness values when replaying on the real code).
"""

from __future__ import annotations

import itertools
import math
from fractions import Fraction

HALF = Fraction(1, 2)


# ---------------------------------------------------------------------------------------
# value helpers that work for python numbers and vc symbolic scalars
# ---------------------------------------------------------------------------------------


def _is_sym(*xs):
    from vc.core import SymBool, SymNum

    return any(isinstance(x, (SymNum, SymBool)) for x in xs)


def vand(*xs):
    from vc import array as A

    r = True
    for x in xs:
        r = A._vand(r, x)
    return r


def vor(*xs):
    from vc import array as A

    r = False
    for x in xs:
        r = A._vor(r, x)
    return r


def vnot(x):
    from vc import array as A

    return A._vnot(x)


def veq(a, b):
    from vc.core import v_eq

    if not _is_sym(a, b):
        return a == b
    return v_eq(a, b)


def vite(c, a, b):
    from vc.core import ite

    if isinstance(c, bool):
        return a if c else b
    return ite(c, a, b)


def frac(x):
    """exact rational of a python number (floats are read as the exact binary value)"""
    if isinstance(x, (int, Fraction)):
        return Fraction(x)
    if isinstance(x, float):
        return Fraction(x)
    return x


def vceil(x):
    if _is_sym(x):
        from vc.core import sym_floor

        return -sym_floor(-x)
    return math.ceil(x)


def clamp(k, lo, hi):
    return vite(k < lo, lo, vite(k > hi, hi, k))


def nearest_first(t, lo, hi):
    """the integer k in [lo, hi] minimising |k - t|, the smaller one on ties (numpy argmin returns
    the first minimiser and candidates are listed in increasing order).  Requires lo <= hi."""
    return clamp(vceil(t - HALF), lo, hi)


def is_nearest(k, t, lo, hi):
    """property-text reading of 'snapped to the nearest admissible edge/interval': k is admissible
    and no admissible neighbour is strictly closer to t (|k-t| is convex in k, so this is global
    optimality).  No tie-breaking rule is demanded."""
    return vand(lo <= k, k <= hi, vor(veq(k, lo), k - t <= HALF), vor(veq(k, hi), t - k <= HALF))


# ---------------------------------------------------------------------------------------
# the uniform grid stand-in
# ---------------------------------------------------------------------------------------

_SPECGRID = [None]


def SpecGridClass():
    if _SPECGRID[0] is not None:
        return _SPECGRID[0]
    from fdtdx.core.grid import RectilinearGrid

    class SpecGrid(RectilinearGrid):
        """uniform grid, `shape` cells (python ints or symbolic ints) of width `h` (exact rational),
        centred on the origin: edge i of axis a sits at (i - shape[a]/2) * h"""

        def __init__(self, shape, h=Fraction(1)):  # noqa: D107 (bypasses autoinit)
            d = self.__dict__
            d["_shape"] = tuple(shape)
            d["_h"] = Fraction(h)

        # -- accessors --------------------------------------------------------------
        @property
        def shape(self):
            return self.__dict__["_shape"]

        @property
        def is_uniform(self):
            return True

        @property
        def uniform_spacing(self):
            return self.__dict__["_h"]

        @property
        def min_spacing(self):
            return self.__dict__["_h"]

        def x0(self, axis):
            return -(self.shape[axis] * self.__dict__["_h"]) / 2

        def edge(self, axis, i):
            return self.x0(axis) + i * self.__dict__["_h"]

        def edges(self, axis):
            g = self

            class _Edges:
                def __getitem__(self, i):
                    if isinstance(i, slice):
                        raise NotImplementedError("edge slices are not part of the placement contract")
                    if isinstance(i, int) and i < 0:
                        i = g.shape[axis] + 1 + i
                    return g.edge(axis, i)

            return _Edges()

        # -- placement helpers: documented contracts (C37) ---------------------------
        # -- edge look-ups by index: the real methods index the edge ARRAY of `axis` -----------
        def _jnp_index(self, axis, i):
            """jax array indexing with a python int: negative indices count from the end, anything
            still out of range is CLAMPED (no error) -- so an index that belongs to another axis
            silently reads the last edge"""
            n = self.shape[axis]
            return clamp(vite(i < 0, i + n + 1, i), 0, n)

        def _decide(self, key, make_cond):
            """truth of a condition on the current path, decided once per grid instance (a grid lives
            for one path; a decision, once taken on a path, stays)"""
            memo = self.__dict__.setdefault("_memo", {})
            k = (key[0],) + tuple(x.re.get_id() if hasattr(x, "re") and hasattr(x.re, "get_id") else x for x in key[1:])
            if k not in memo:
                memo[k] = bool(make_cond())
            return memo[k]

        def _np_index(self, axis, *idx):
            """numpy indexing: negative indices count from the end, out of range raises IndexError
            (one joint decision for all indices of a call keeps the number of paths down)"""
            n = self.shape[axis]
            if self._decide(("np_oob", axis, *idx), lambda: vor(*[vor(i < -(n + 1), i > n) for i in idx])):
                raise IndexError(f"index out of bounds for axis 0 with size {n + 1}: {idx}")
            if self._decide(("np_neg", axis, *idx), lambda: vor(*[i < 0 for i in idx])):
                return tuple(vite(i < 0, i + n + 1, i) for i in idx)
            return idx

        def axis_extent(self, axis, bounds):
            lower, upper = bounds
            n = self.shape[axis]
            if self._decide(("jnp_in", axis, lower, upper), lambda: vand(0 <= lower, lower <= n, 0 <= upper, upper <= n)):  # the regular case, kept free of if-then-else terms
                return (upper - lower) * self.__dict__["_h"]
            return self.edge(axis, self._jnp_index(axis, upper)) - self.edge(axis, self._jnp_index(axis, lower))

        def coord_to_index(self, axis, coord, snap="nearest"):
            if snap != "nearest":
                raise NotImplementedError("only nearest snapping is used on uniform grids")
            t = (coord - self.x0(axis)) / self.__dict__["_h"]
            return nearest_first(t, 0, self.shape[axis])

        def length_to_cell_count(self, axis, length, snap="nearest"):
            if length < 0:
                raise ValueError(f"Length must be non-negative, got {length}.")
            return self.coord_to_index(axis, self.x0(axis) + length, snap=snap)

        def _interval(self, axis, size, target, rel):
            """lower index l in [0, N-size] whose anchor edge(l) + rel*size*h is closest to target"""
            if size <= 0:
                raise ValueError(f"Interval size must be positive, got {size}.")
            n = self.shape[axis]
            if n - size < 0:
                raise ValueError(f"Interval of size {size} does not fit on axis {axis} with shape {n}.")
            t = (target - self.x0(axis)) / self.__dict__["_h"] - rel * size
            lower = nearest_first(t, 0, n - size)
            return lower, lower + size

        def bounds_for_center(self, axis, center, size):
            return self._interval(axis, size, center, HALF)

        def anchor_coordinate(self, axis, bounds, position):
            lower, upper = bounds
            lower, upper = self._np_index(axis, lower, upper)
            lo, up = self.edge(axis, lower), self.edge(axis, upper)
            return lo + HALF * (frac(position) + 1) * (up - lo)

        def bounds_for_anchor(self, axis, size, anchor, position):
            return self._interval(axis, size, anchor, HALF * (frac(position) + 1))

    _SPECGRID[0] = SpecGrid
    return SpecGrid


def make_config(shape, h=Fraction(1), symmetry=(0, 0, 0)):
    """real SimulationConfig whose (already resolved) grid is the SpecGrid of the given shape"""
    from fdtdx.config import SimulationConfig
    from fdtdx.core.grid import UniformGrid

    cfg = SimulationConfig(time=1e-15, grid=UniformGrid(spacing=1.0), backend="cpu", symmetry=tuple(symmetry))
    cfg.__dict__["grid"] = SpecGridClass()(shape, h)
    return cfg


def grid_stub_cases():
    """concrete comparison of SpecGrid with the real RectilinearGrid.uniform (spacing 1, origin
    centred): yields (label, ok, detail).  Ties (target exactly half way) are included: spacing 1
    and half-integer targets are exact in binary floating point."""
    from fdtdx.core.grid import UniformGrid

    out = []
    # index look-ups on a NON-CUBIC grid, every axis, including indices that are out of range for
    # the axis (jax clamps in axis_extent, numpy raises in anchor_coordinate)
    shape = (4, 6, 9)
    real = UniformGrid(spacing=1.0).resolve(shape)
    spec = SpecGridClass()(shape, Fraction(1))
    for ax in range(3):
        for lo in range(-12, 13):
            for up in range(-12, 13, 2):
                r = real.axis_extent(ax, (lo, up))
                s = spec.axis_extent(ax, (lo, up))
                out.append((f"axis_extent(shape={shape},axis={ax},{lo},{up})", Fraction(r) == s, f"real {r} spec {s}"))
                try:
                    r = Fraction(real.anchor_coordinate(ax, (lo, up), 1))
                except IndexError:
                    r = "IndexError"
                try:
                    s = spec.anchor_coordinate(ax, (lo, up), 1)
                except IndexError:
                    s = "IndexError"
                out.append((f"anchor_coordinate(shape={shape},axis={ax},{lo},{up})", r == s, f"real {r} spec {s}"))
    for n in (1, 2, 5, 8):
        real = UniformGrid(spacing=1.0).resolve((n, n, n))
        spec = SpecGridClass()((n, n, n), Fraction(1))
        coords = [Fraction(k, 4) for k in range(-2 * n - 6, 2 * n + 7)]
        for c in coords:
            r = real.coord_to_index(0, float(c))
            s = spec.coord_to_index(0, c)
            out.append((f"coord_to_index(n={n},c={c})", r == s, f"real {r} spec {s}"))
        for lo in range(0, n):
            for up in range(lo + 1, n + 1):
                for p in (-1, -0.5, 0, 0.5, 1):
                    r = real.anchor_coordinate(1, (lo, up), p)
                    s = spec.anchor_coordinate(1, (lo, up), p)
                    out.append((f"anchor_coordinate(n={n},{lo},{up},p={p})", Fraction(r) == s, f"real {r} spec {s}"))
                r = real.axis_extent(2, (lo, up))
                s = spec.axis_extent(2, (lo, up))
                out.append((f"axis_extent(n={n},{lo},{up})", Fraction(r) == s, f"real {r} spec {s}"))
        for size in range(1, n + 1):
            for c in coords:
                for p in (-1, 0, 1, 0.5):
                    r = real.bounds_for_anchor(0, size, float(c), p)
                    s = spec.bounds_for_anchor(0, size, c, p)
                    out.append((f"bounds_for_anchor(n={n},size={size},a={c},p={p})", tuple(r) == tuple(s), f"real {r} spec {s}"))
                r = real.bounds_for_center(0, float(c), size)
                s = spec.bounds_for_center(0, c, size)
                out.append((f"bounds_for_center(n={n},size={size},c={c})", tuple(r) == tuple(s), f"real {r} spec {s}"))
        for ln in [Fraction(k, 4) for k in range(0, 4 * n + 9)]:
            r = real.length_to_cell_count(0, float(ln))
            s = spec.length_to_cell_count(0, ln)
            out.append((f"length_to_cell_count(n={n},len={ln})", r == s, f"real {r} spec {s}"))
    return out


# ---------------------------------------------------------------------------------------
# constraint systems as plain data
# ---------------------------------------------------------------------------------------
#
# system = {"objects": [(name, (sx, sy, sz))...], "constraints": [cdesc...]}
# shape entries / numeric parameters are python numbers, None, or ("$int"|"$real", symbol_name, lo)
# which the value provider resolves.  cdesc:
#   ("pos",  obj, other, axes, own_positions, other_positions, margins, grid_margins)
#   ("size", obj, other, axes, other_axes, proportions, offsets, grid_offsets)
#   ("ext",  obj, other|None, axis, direction, other_position, offset, grid_offset)
#   ("grid", obj, axes, sides, coordinates)
#   ("real", obj, axes, sides, coordinates)

VOL = "vol"


def is_symbol(spec):
    return isinstance(spec, tuple) and len(spec) >= 2 and spec[0] in ("$int", "$real")


class Values:
    """value provider: symbolic (registers inputs) or concrete (from a witness / a dict)"""

    def __init__(self, inp=None, concrete=None):
        self.inp = inp
        self.concrete = concrete
        self.cache = {}

    def get(self, spec):
        if not is_symbol(spec):
            return spec
        kind, name = spec[0][1:], spec[1]
        lo = spec[2] if len(spec) > 2 else None
        if name in self.cache:
            return self.cache[name]
        if self.concrete is not None:
            v = self.concrete[name]
            v = int(v) if kind == "int" else Fraction(v).limit_denominator(1 << 20)
        else:
            from vc.obl import sym_int, sym_real

            v = sym_int(name, lo=lo) if kind == "int" else sym_real(name, lo=lo)
            if self.inp is not None:
                self.inp.scalar(name, v)
        self.cache[name] = v
        return v

    def tup(self, t):
        return tuple(self.get(x) for x in t)


def to_float(x):
    if isinstance(x, Fraction):
        return float(x)
    return x


def build(system, V, real=False):
    """-> (objects, constraints, info).  real=True builds plain python/float parameters for the
    real code under real JAX (replay, bounded runs)."""
    from fdtdx.materials import Material
    from fdtdx.objects.object import GridCoordinateConstraint, PositionConstraint, RealCoordinateConstraint, SizeConstraint, SizeExtensionConstraint
    from fdtdx.objects.static_material.static import SimulationVolume, UniformMaterialObject

    conv = (lambda t: tuple(to_float(x) for x in t)) if real else (lambda t: tuple(frac(x) if isinstance(x, float) else x for x in t))
    objs = []
    shapes = {}
    for name, shp in system["objects"]:
        shp = V.tup(shp)
        shapes[name] = shp
        if name == VOL:
            objs.append(SimulationVolume(name=name, partial_grid_shape=shp))
        else:
            objs.append(UniformMaterialObject(name=name, partial_grid_shape=shp, material=Material()))
    cons = []
    plain = []
    for cd in system["constraints"]:
        k = cd[0]
        if k == "pos":
            _, o, other, axes, op, otp, mg, gm = cd
            mg, gm = V.tup(mg), V.tup(gm)
            cons.append(PositionConstraint(object=o, other_object=other, axes=tuple(axes), object_positions=conv(op), other_object_positions=conv(otp), margins=conv(mg), grid_margins=tuple(gm)))
            plain.append(("pos", o, other, tuple(axes), tuple(op), tuple(otp), mg, gm))
        elif k == "size":
            _, o, other, axes, oaxes, prop, off, goff = cd
            off, goff = V.tup(off), V.tup(goff)
            cons.append(SizeConstraint(object=o, other_object=other, axes=tuple(axes), other_axes=tuple(oaxes), proportions=conv(prop), offsets=conv(off), grid_offsets=tuple(goff)))
            plain.append(("size", o, other, tuple(axes), tuple(oaxes), tuple(prop), off, goff))
        elif k == "ext":
            _, o, other, axis, direction, opos, off, goff = cd
            off, goff = V.get(off), V.get(goff)
            cons.append(SizeExtensionConstraint(object=o, other_object=other, axis=axis, direction=direction, other_position=to_float(opos) if real else opos, offset=to_float(off) if real else off, grid_offset=goff))
            plain.append(("ext", o, other, axis, direction, opos, off, goff))
        elif k == "grid":
            _, o, axes, sides, coords = cd
            coords = V.tup(coords)
            cons.append(GridCoordinateConstraint(object=o, axes=tuple(axes), sides=tuple(sides), coordinates=tuple(coords)))
            plain.append(("grid", o, tuple(axes), tuple(sides), coords))
        elif k == "real":
            _, o, axes, sides, coords = cd
            coords = V.tup(coords)
            cons.append(RealCoordinateConstraint(object=o, axes=tuple(axes), sides=tuple(sides), coordinates=conv(coords)))
            plain.append(("real", o, tuple(axes), tuple(sides), coords))
        else:
            raise ValueError(k)
    return objs, cons, {"shapes": shapes, "plain": plain}


# ---------------------------------------------------------------------------------------
# the property-text oracle
# ---------------------------------------------------------------------------------------


def _edge(n, h, i):
    return (i - n * HALF) * h


def _anchor(n, h, bounds, p):
    lo, up = bounds
    return _edge(n, h, lo) + HALF * (frac(p) + 1) * ((up - lo) * h)


def constraint_clauses(pc, slices, N, h=Fraction(1)):
    """clauses (label, condition) of one plain constraint on the final slices.  N: volume shape.
    A clause over a cell that is still unknown (None) is violated."""
    out = []
    for lab, cells, cond in _constraint_clauses(pc, slices, N, h):
        out.append((lab, cond() if all(x is not None for x in cells) else False))
    return out


def _constraint_clauses(pc, slices, N, h):
    """-> (label, cells the clause reads, thunk of the condition)"""
    out = []
    k = pc[0]
    if k == "pos":
        _, o, other, axes, op, otp, mg, gm = pc
        for j, ax in enumerate(axes):

            def cond(j=j, ax=ax):
                b0, b1 = slices[o][ax]
                size = b1 - b0
                target = _anchor(N[ax], h, slices[other][ax], otp[j]) + (mg[j] if mg[j] is not None else 0) + (gm[j] if gm[j] is not None else 0) * h
                t = (target - _edge(N[ax], h, 0)) / h - HALF * (frac(op[j]) + 1) * size
                return is_nearest(b0, t, 0, N[ax] - size)

            out.append((f"pos[{o}<-{other},axis{ax}]", [*slices[o][ax], *slices[other][ax]], cond))
    elif k == "size":
        _, o, other, axes, oaxes, prop, off, goff = pc
        for j, ax in enumerate(axes):

            def cond(j=j, ax=ax):
                b0, b1 = slices[o][ax]
                ob0, ob1 = slices[other][oaxes[j]]
                length = (ob1 - ob0) * h * frac(prop[j]) + (off[j] if off[j] is not None else 0) + (goff[j] if goff[j] is not None else 0) * h
                return vand(length >= 0, is_nearest(b1 - b0, length / h, 0, N[ax]))

            out.append((f"size[{o}<-{other},axis{ax}]", [*slices[o][ax], *slices[other][oaxes[j]]], cond))
    elif k == "ext":
        _, o, other, axis, direction, opos, off, goff = pc
        d = 0 if direction == "-" else 1
        if other is None:
            out.append((f"ext[{o}->boundary,axis{axis}{direction}]", [slices[o][axis][d]], lambda: veq(slices[o][axis][d], 0 if d == 0 else N[axis])))
        else:

            def cond():
                target = _anchor(N[axis], h, slices[other][axis], opos) + (off if off is not None else 0) + (goff if goff is not None else 0) * h
                t = (target - _edge(N[axis], h, 0)) / h
                return is_nearest(slices[o][axis][d], t, 0, N[axis])

            out.append((f"ext[{o}->{other},axis{axis}{direction}]", [slices[o][axis][d], *slices[other][axis]], cond))
    elif k == "grid":
        _, o, axes, sides, coords = pc
        for j, ax in enumerate(axes):
            d = 0 if sides[j] == "-" else 1
            out.append((f"grid[{o},axis{ax}{sides[j]}]", [slices[o][ax][d]], lambda j=j, ax=ax, d=d: veq(slices[o][ax][d], coords[j])))
    elif k == "real":
        _, o, axes, sides, coords = pc
        for j, ax in enumerate(axes):
            d = 0 if sides[j] == "-" else 1
            out.append((f"real[{o},axis{ax}{sides[j]}]", [slices[o][ax][d]], lambda j=j, ax=ax, d=d: is_nearest(slices[o][ax][d], (coords[j] - _edge(N[ax], h, 0)) / h, 0, N[ax])))
    return out


def constrained_axes(system_plain, shapes):
    """(object, axis) pairs that carry any size/position information of their own"""
    used = set()
    for name, shp in shapes.items():
        for ax in range(3):
            if shp[ax] is not None:
                used.add((name, ax))
    for pc in system_plain:
        k = pc[0]
        if k in ("pos", "size", "grid", "real"):
            for ax in pc[3] if k in ("pos", "size") else pc[2]:
                used.add((pc[1], ax))
        elif k == "ext":
            used.add((pc[1], pc[3]))
    return used


def placement_post(info, slices, N, h=Fraction(1)):
    """all clauses of C26 for a successful placement: (label, condition) list"""
    out = []
    for name in info["shapes"]:
        for ax in range(3):
            b0, b1 = slices[name][ax]
            if b0 is None or b1 is None:
                out.append((f"resolved[{name},axis{ax}]", False))
                continue
            if name == VOL:
                out.append((f"volume[{ax}]", vand(veq(b0, 0), veq(b1, N[ax]))))
            else:
                out.append((f"inside[{name},axis{ax}]", vand(0 <= b0, b0 < b1, b1 <= N[ax])))
            decl = info["shapes"][name][ax]
            if decl is not None:
                out.append((f"declared_size[{name},axis{ax}]", veq(b1 - b0, decl)))
    for pc in info["plain"]:
        out.extend(constraint_clauses(pc, slices, N, h))
    used = constrained_axes(info["plain"], info["shapes"])
    for name in info["shapes"]:
        for ax in range(3):
            if (name, ax) not in used:
                b0, b1 = slices[name][ax]
                if b0 is not None and b1 is not None:
                    out.append((f"unconstrained_spans_volume[{name},axis{ax}]", vand(veq(b0, 0), veq(b1, N[ax]))))
    return out


_CFG_CACHE = {}


def real_config(shape, h=1.0):
    """real SimulationConfig with the real resolved RectilinearGrid of the volume shape (cached)"""
    from fdtdx.config import SimulationConfig
    from fdtdx.core.grid import UniformGrid

    key = (tuple(int(x) for x in shape), float(h))
    if key not in _CFG_CACHE:
        cfg = SimulationConfig(time=1e-15, grid=UniformGrid(spacing=float(h)), backend="cpu")
        _CFG_CACHE[key] = cfg.aset("grid", cfg.grid.resolve(key[0]))
    return _CFG_CACHE[key]


def run_real(system, values, order=None, obj_order=None, h=1.0):
    """real resolve_object_constraints under real numpy/JAX on a concrete instance.
    -> (ok, slices, errors, info)"""
    from fdtdx.fdtd.initialization import resolve_object_constraints

    V = Values(concrete=values)
    objs, cons, info = build(system, V, real=True)
    if order is not None:
        cons = [cons[i] for i in order]
    if obj_order is not None:
        objs = [objs[i] for i in obj_order]
    try:
        cfg = real_config(info["shapes"][VOL], h)
        slices, errors = resolve_object_constraints(objs, cons, cfg)
    except Exception as e:  # noqa: BLE001
        return False, None, {"<raised>": repr(e)}, info
    bad = {k: v for k, v in errors.items() if v}
    return (not bad), slices, bad, info


def check_real(system, values, order=None, obj_order=None, h=1.0):
    """run the real code; on success evaluate the oracle.  -> (ok, violated labels, slices, errors)"""
    ok, slices, errors, info = run_real(system, values, order, obj_order, h)
    if not ok:
        return False, [], slices, errors
    N = tuple(int(x) for x in info["shapes"][VOL])
    viol = [lab for lab, cond in placement_post(info, slices, N, Fraction(h)) if not bool(cond)]
    return True, viol, slices, errors
