"""Specification of the Yee scheme on a rectilinear grid, written from the textbook scheme and the
property statements (NOT from the repository code).  All functions are pointwise: they take a
field as a SymArray of shape (3, Nx, Ny, Nz) and an index (i, j, k) of python ints / SymNum and
return a scalar value.  The same functions run on concrete data (SymArrays of floats).

Conventions (Taflove): E_c lives on the cell edge along c, H_c on the face normal to c.
  curl_E uses forward differences  (F(i+1) - F(i)) / w_a(i)
  curl_H uses backward differences (G(i) - G(i-1)) / wd_a(i),  wd_a(i) = (w_a(i) + w_a(i-1))/2,
                                                              wd_a(0) = w_a(0)
Ghost values: 0 outside open / PEC / PMC faces; wrap on periodic axes; on Bloch axes the upper
ghost F(N) = phi * F(0) and the lower ghost F(-1) = conj(phi) * F(N-1), phi = exp(i k L).
The repository stores curls multiplied by a reference spacing `ref` (c0*dt/courant); on uniform
grids w = ref = 1 in these formulas.
"""

from __future__ import annotations

from vc import array as A
from vc.core import ite


def cyc(a):
    return (a + 1) % 3, (a + 2) % 3


class Yee:
    def __init__(self, shape, assign, widths=None, ref=1, phases=None):
        """assign: ((lo,hi),)*3 with kinds None|'pec'|'pmc'|'periodic'|'bloch';
        widths: None (uniform, all 1) or [wx, wy, wz] 1-D arrays; phases: {axis: phi} for Bloch."""
        self.shape = tuple(shape)
        self.assign = assign
        self.widths = widths
        self.ref = ref
        self.phases = phases or {}

    # -- geometry ------------------------------------------------------------------------
    def wrap_axis(self, a):
        return any(k in ("periodic", "bloch") for k in self.assign[a])

    def w(self, a, i):
        """primal width of cell i along axis a (clamped at the ends like the code's edge replication)"""
        if self.widths is None:
            return 1
        return self.widths[a].at_index((A._raw_index(i),))

    def wd(self, a, i):
        """dual width at node i: mean of the adjacent primal widths, wd(0) = w(0)"""
        if self.widths is None:
            return 1
        w0 = self.w(a, i)
        wm = self.w(a, i - 1)
        at0 = A.v_eq(i, 0)
        return ite(at0, w0, (w0 + wm) / 2)

    def scale_fwd(self, a, i):
        return 1 if self.widths is None else self.ref / self.w(a, i)

    def scale_bwd(self, a, i):
        return 1 if self.widths is None else self.ref / self.wd(a, i)

    # -- ghost-cell semantics ------------------------------------------------------------
    def at(self, F, comp, idx):
        """F[comp] at idx where each idx[a] may be -1 or N_a (one step outside) as well"""
        idx = list(idx)
        factor = 1
        zero_cond = False
        for a in range(3):
            n = self.shape[a]
            i = idx[a]
            below = i < 0
            above = i >= n
            if isinstance(below, bool) and isinstance(above, bool) and not below and not above:
                continue
            if self.wrap_axis(a):
                phi = self.phases.get(a)
                idx[a] = ite(below, i + n, ite(above, i - n, i))
                if phi is not None:
                    factor = factor * ite(below, _conj(phi), ite(above, phi, 1))
            else:
                zero_cond = A._vor(zero_cond, A._vor(below, above))
                # keep the index in range for the (guarded) access
                idx[a] = ite(below, 0, ite(above, n - 1, i))
        v = F.at_index((comp,) + tuple(A._raw_index(x) for x in idx))
        v = v * factor if not (isinstance(factor, int) and factor == 1) else v
        if zero_cond is False:
            return v
        return ite(zero_cond, 0, v)

    # -- curls ---------------------------------------------------------------------------
    def _shift(self, idx, a, d):
        idx = list(idx)
        idx[a] = idx[a] + d
        return tuple(idx)

    def dfwd(self, F, comp, a, idx):
        return (self.at(F, comp, self._shift(idx, a, 1)) - self.at(F, comp, idx)) * self.scale_fwd(a, idx[a])

    def dbwd(self, G, comp, a, idx):
        return (self.at(G, comp, idx) - self.at(G, comp, self._shift(idx, a, -1))) * self.scale_bwd(a, idx[a])

    def curl_E(self, F, comp, idx):
        """(curl F)_comp with forward differences: d_b F_c - d_c F_b, (comp,b,c) cyclic"""
        b, c = cyc(comp)
        return self.dfwd(F, c, b, idx) - self.dfwd(F, b, c, idx)

    def curl_H(self, G, comp, idx):
        b, c = cyc(comp)
        return self.dbwd(G, c, b, idx) - self.dbwd(G, b, c, idx)

    # -- wall slabs ----------------------------------------------------------------------
    def on_wall(self, kind, comp, idx):
        """True iff component comp at idx is tangential to a `kind` wall slab (thickness 1)"""
        res = False
        for a, (lo, hi) in enumerate(self.assign):
            if a == comp:
                continue
            if lo == kind:
                res = A._vor(res, A.v_eq(idx[a], 0))
            if hi == kind:
                res = A._vor(res, A.v_eq(idx[a], self.shape[a] - 1))
        return res

    # -- staggered cell volumes (energy weights) ------------------------------------------
    def vol_E(self, comp, idx):
        """volume of the Yee cell of E_comp: primal width along comp, dual widths across"""
        r = 1
        for a in range(3):
            r = r * (self.w(a, idx[a]) if a == comp else self.wd(a, idx[a]))
        return r

    def vol_H(self, comp, idx):
        r = 1
        for a in range(3):
            r = r * (self.wd(a, idx[a]) if a == comp else self.w(a, idx[a]))
        return r

    def area(self, comp_axis, primal_axis, idx):
        """A = product over the two axes other than `comp_axis`... see flux()"""
        raise NotImplementedError


def _conj(v):
    return A._conj(v)


def tier(arr, comp, idx):
    """material entry used with field component comp: 1-component arrays broadcast, scalars pass"""
    if not isinstance(arr, A.SymArray):
        return arr
    if arr.ndim == 0:
        return arr.item()
    t = arr.shape[0]
    return arr.at_index(((comp if t == 3 else 0),) + tuple(A._raw_index(x) for x in idx))


# ---------------------------------------------------------------------------------------
# Detector co-location (C15): every component is interpolated onto the E_z node (i, j, k+1/2)
# ---------------------------------------------------------------------------------------


class Colocation:
    """E_x: (i+1/2, j, k)   -> backward in x, forward in z      E_y: backward in y, forward in z
    E_z: already there                                          H_x: (i, j+1/2, k+1/2) -> backward in y
    H_y: backward in x                                          H_z: backward in x and y, forward in z
    'backward in a' interpolates the samples of cells i-1 and i linearly (by physical distance) onto
    the edge between them; 'forward in z' is the plain midpoint of k and k+1 (edge-aligned samples).
    Ghost values follow the boundary (zero / wrap / Bloch phase) except on an ELECTRIC symmetry plane
    (config.symmetry[a] == -1, min face) where the lower ghost is the parity-weighted mirror image:
    partner cell 0 for components sampled half a cell off the plane, cell 1 for components on it."""

    def __init__(self, yee, electric_symmetry_axes=()):
        self.y = yee
        self.sym = tuple(electric_symmetry_axes)

    def sample(self, F, kind, comp, idx):
        """F[comp] at idx with ghost semantics incl. the symmetry mirror (kind: 'E'|'H')"""
        y = self.y
        idx = list(idx)
        sign = 1
        for a in self.sym:
            i = idx[a]
            below = i < 0
            if isinstance(below, bool) and not below:
                continue
            if kind == "E":
                on_plane = comp != a  # tangential E sits on the plane
                parity = 1 if comp == a else -1  # normal E even, tangential E odd
            else:
                on_plane = comp == a  # normal H sits on the plane
                parity = -1 if comp == a else 1  # normal H odd, tangential H even
            partner = 1 if on_plane else 0
            idx[a] = ite(below, partner, i)
            sign = sign * ite(below, parity, 1)
        v = y.at(F, comp, tuple(idx))
        return v * sign if not (isinstance(sign, int) and sign == 1) else v

    def back(self, f, a, idx):
        """linear interpolation of cell-centred samples f(idx) and f(idx - e_a) onto their common edge"""
        y = self.y
        prev = list(idx)
        prev[a] = prev[a] - 1
        cur_v, prev_v = f(tuple(idx)), f(tuple(prev))
        if y.widths is None:
            return (cur_v + prev_v) / 2
        i = idx[a]
        wc = y.w(a, i) / 2
        wp = ite(A.v_eq(i, 0), y.w(a, i), y.w(a, i - 1)) / 2  # ghost cell as wide as the first cell
        return (cur_v * wp + prev_v * wc) / (wc + wp)

    def fwd_mid(self, f, a, idx):
        nxt = list(idx)
        nxt[a] = nxt[a] + 1
        return (f(tuple(idx)) + f(tuple(nxt))) / 2

    def E(self, F, comp, idx):
        s = lambda c: (lambda p: self.sample(F, "E", c, p))  # noqa: E731
        if comp == 2:
            return s(2)(tuple(idx))
        return self.fwd_mid(lambda p: self.back(s(comp), comp, p), 2, idx)

    def H(self, G, comp, idx):
        s = lambda c: (lambda p: self.sample(G, "H", c, p))  # noqa: E731
        if comp == 0:
            return self.back(s(0), 1, idx)
        if comp == 1:
            return self.back(s(1), 0, idx)
        return self.fwd_mid(lambda p: self.back(lambda q: self.back(s(2), 0, q), 1, p), 2, idx)
