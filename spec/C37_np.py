"""Symbolic stand-in for the module global `np` (numpy) of fdtdx.core.grid, used by C37/C38.

It is the jnp shim namespace of vc/shims.py (exact numpy semantics on arrays of concrete length,
symbolic values) with these additions:

* np.sqrt is always the exact real square root (uninterpreted function `sqrt` with the axioms
  sqrt(x) >= 0, sqrt(x)^2 == x for x >= 0), also on concrete arguments, so that identities like
  (cf/sqrt(3) * s)^2 * 3/s^2 == cf^2 are decided exactly and not up to the rounding of 1.7320508....
* np.round(x, decimals=d) with d != 0 is an uninterpreted function of (x, d): a deterministic
  function of its input about which nothing else is assumed.
* np.finfo(dtype).eps is a per-session constant: the machine epsilon the check selects with
  set_session_eps (float64 / float32 are enumerated by C37), or one symbolic eps >= 0 if none was set.
* np.argmin / np.argmax / np.searchsorted / np.min / np.max over an axis of SYMBOLIC length are
  replaced by their documented numpy contracts (assumed, listed in STUBS of the property module):
  a fresh result constrained by the contract; the universally quantified part of the contract is
  kept as an explicit instantiation hook (`instantiate_contracts(j)`) that the check calls with the
  generic index of its own postcondition.  For concrete lengths the exact shim semantics are used.
"""

from __future__ import annotations

import z3

from vc import array as A
from vc.array import SymArray, asarray
from vc.core import SymBool, SymNum, Unsupported, _is_pyint, apply_uf, ctx, to_z3_int, to_z3_real, zbool
from vc.shims import _Namespace, make_jnp_cached


def sqrt_axioms(args, term, apps):
    """sqrt(x) >= 0 and (x >= 0 -> sqrt(x)^2 == x); instantiated once per application."""
    (x,) = args
    yield term >= 0
    yield z3.Implies(x >= 0, term * term == x)


AXIOMS = {"sqrt": [sqrt_axioms]}


def _state():
    c = ctx()
    st = getattr(c, "_c37_state", None)
    if st is None:
        st = {"eps": None, "contracts": []}
        c._c37_state = st
    return st


def session_eps():
    st = _state()
    if st["eps"] is None:
        e = z3.Real(ctx().fresh_name("eps"))
        ctx().assume(e >= 0)
        st["eps"] = SymNum(e)
    return st["eps"]


def set_session_eps(value):
    """fix np.finfo(...).eps for this session to a concrete machine epsilon (keeps the uniformity
    tolerance linear in the edge values)"""
    _state()["eps"] = value


def instantiate_contracts(j):
    """assume the quantified part of every recorded numpy contract at index j (python int / SymNum)"""
    for inst in list(_state()["contracts"]):
        inst(j)


def n_contracts():
    return len(_state()["contracts"])


def _scalar_sqrt(v):
    v = A._bool_to_num(v)
    if isinstance(v, SymNum) and v.im is not None:
        raise Unsupported("sqrt of complex")
    return apply_uf("sqrt", v)


def _sqrt(x):
    if isinstance(x, SymArray):
        return x._map(_scalar_sqrt, "real")
    return _scalar_sqrt(x)


def _round(x, decimals=0, **kw):
    base = make_jnp_cached()
    if decimals == 0:
        return base.round(x)

    def f(v):
        return apply_uf("round_decimals", A._bool_to_num(v), decimals)

    if isinstance(x, SymArray):
        return x._map(f, "real")
    return f(x)


class _FInfo:
    @property
    def eps(self):
        return session_eps()


def _in_range_hyp(j, n):
    j = j if isinstance(j, SymNum) else SymNum.wrap(to_z3_int(j))
    return A._vand(j >= 0, j < n)


def _sym_len_1d(a):
    return a.ndim == 1 and not _is_pyint(a.shape[0])


def _require_nonempty(a, what):
    n = a.shape[0]
    if not ctx().implied(zbool(n >= 1)):
        raise Unsupported(f"{what} of a possibly empty array (numpy would raise)")


def _arg_ext(a, axis, exact, better, what):
    a = asarray(a)
    if not _sym_len_1d(a) or axis not in (None, 0, -1):
        return exact(a, axis)
    _require_nonempty(a, what)
    n = a.shape[0]
    c = ctx()
    k = SymNum(z3.Int(c.fresh_name(what)))
    c.assume(zbool(A._vand(k >= 0, k < n)))
    ak = a.at_index((A._raw_index(k),))

    def inst(j):
        # forall j in range: not better(a[j], a[k]);  j < k -> better(a[k], a[j])   (first extreme)
        aj = a.at_index((A._raw_index(j),))
        h = _in_range_hyp(j, n)
        ctx().assume(z3.Implies(zbool(h), zbool(A._vnot(better(aj, ak)))))
        ctx().assume(z3.Implies(zbool(A._vand(h, SymNum.wrap(to_z3_int(A._raw_index(j))) < k)), zbool(better(ak, aj))))

    _state()["contracts"].append(inst)
    return SymArray((), lambda idx: k, "int", memo=False)


def _lt(x, y):
    return x < y if A.is_sym(x) or not A.is_sym(y) else y > x


def _argmin(a, axis=None, **kw):
    return _arg_ext(a, axis, A.argmin, lambda x, y: _lt(x, y), "argmin")


def _argmax(a, axis=None, **kw):
    return _arg_ext(a, axis, A.argmax, lambda x, y: _lt(y, x), "argmax")


def _ext(a, axis, exact, better, what):
    a = asarray(a)
    if not _sym_len_1d(a) or axis not in (None, 0, -1):
        return exact(a, axis)
    k = _arg_ext(a, axis, None, better, what).item()
    v = a.at_index((A._raw_index(k),))
    return SymArray((), lambda idx: v, a.kind, memo=False)


def _searchsorted(a, v, side="left", sorter=None, **kw):
    base = make_jnp_cached()
    a = asarray(a)
    if not _sym_len_1d(a):
        return base.searchsorted(a, v, side=side, sorter=sorter, **kw)
    if sorter is not None or kw:
        raise Unsupported("searchsorted with sorter")
    if side not in ("left", "right"):
        raise ValueError(f"side must be 'left' or 'right', got {side!r}")
    if isinstance(v, SymArray):
        if v.ndim != 0:
            raise Unsupported("searchsorted contract for array-valued needles")
        v = v.item()
    # numpy contract (a sorted):  left:  a[j] < v  <=> j < i ;   right:  a[j] <= v <=> j < i
    # PRECONDITION sortedness: the caller passes strictly increasing edges (class invariant, assumed
    # via the adjacent-pair facts of the edge array); it cannot be checked for a symbolic length
    # without a quantifier, so it is part of the stated assumption of the stub.
    n = a.shape[0]
    c = ctx()
    i = SymNum(z3.Int(c.fresh_name("searchsorted")))
    c.assume(zbool(A._vand(i >= 0, i <= n)))

    def inst(j):
        aj = a.at_index((A._raw_index(j),))
        h = _in_range_hyp(j, n)
        jj = SymNum.wrap(to_z3_int(A._raw_index(j)))
        before = (aj < v) if side == "left" else (aj <= v)
        ctx().assume(z3.Implies(zbool(h), zbool(before) == zbool(jj < i)))

    _state()["contracts"].append(inst)
    return SymArray((), lambda idx: i, "int", memo=False)


_NP = [None]


def make_np():
    if _NP[0] is not None:
        return _NP[0]
    import numpy as real_np

    base = make_jnp_cached()
    ns = _Namespace("symnp")
    for k, v in base.__dict__.items():
        if not k.startswith("__"):
            setattr(ns, k, v)
    ns.__real__ = real_np
    ns.floating = real_np.floating
    ns.integer = real_np.integer
    ns.issubdtype = lambda dt, cls: (getattr(dt, "kind_name", None) == "real") if cls is real_np.floating else ((getattr(dt, "kind_name", None) == "int") if cls is real_np.integer else real_np.issubdtype(dt, cls))
    ns.finfo = lambda dt: _FInfo()
    ns.sqrt = _sqrt
    ns.round = _round
    ns.around = _round
    ns.argmin = _argmin
    ns.argmax = _argmax
    ns.searchsorted = _searchsorted
    ns.min = lambda a, axis=None, **k: _ext(a, axis, lambda x, ax: base.min(x, axis=ax), lambda x, y: _lt(x, y), "min")
    ns.max = lambda a, axis=None, **k: _ext(a, axis, lambda x, ax: base.max(x, axis=ax), lambda x, y: _lt(y, x), "max")
    ns.amin, ns.amax = ns.min, ns.max
    _NP[0] = ns
    return ns


class _SqrtMath(_Namespace):
    pass


_MATH = [None]


def make_math():
    """`math` whose sqrt is the same exact square root as np.sqrt (also on concrete arguments)"""
    if _MATH[0] is not None:
        return _MATH[0]
    from vc.shims import shim_objects

    base = shim_objects()["math"]
    ns = _SqrtMath("symmath_exact_sqrt")
    for k, v in base.__dict__.items():
        if not k.startswith("__"):
            setattr(ns, k, v)
    ns.sqrt = _scalar_sqrt
    _MATH[0] = ns
    return ns
