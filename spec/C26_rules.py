"""Contracts of the placement rules and end-to-end obligations (shared by props/C26.py, props/C27.py).

Rule contracts (DESIGN section 4, C26): every rule of fdtdx.fdtd.initialization works on two
dictionaries of Optional[int] cells (per object and axis: size `s`, lower bound `b0`, upper bound
`b1`).  For every pattern of known/unknown cells a rule touches (enumerated; the VALUES of known
cells and all numeric constraint parameters are symbolic) the real rule is executed and

  frame     cells the rule does not own are left alone,
  set-once  a known cell never changes,
  idle      if an input cell is unknown the rule does nothing, returns False and does not raise,
  sound     if the inputs are known and the rule returns normally, its target cells are known and the
            constraint clause (spec.C26_placement oracle) holds for them  -- whether the rule SET the
            cells or only VALIDATED them,
  flag      the returned `resolved_something` is True iff a cell changed (the driver's quiescence
            test relies on it).

End-to-end bodies run the real `resolve_object_constraints` on a constraint system whose structure is
fixed and whose numbers are symbolic.
"""

from __future__ import annotations

import itertools
from fractions import Fraction

from spec import C26_placement as P
from spec.C26_placement import HALF, VOL, is_nearest, vand, veq, vnot, vor

CELLS = ("s", "b0", "b1")
ENGINE_EXC = None


def _engine_exceptions():
    from vc.core import PathAbort, Undecided, Unsupported

    return (PathAbort, Undecided, Unsupported)


# ---------------------------------------------------------------------------------------
# symbolic placement state
# ---------------------------------------------------------------------------------------


class State:
    """slice_dict / shape_dict over `names`; `known(name, axis, cell) -> bool` chooses the pattern.
    Known cells hold fresh unconstrained symbolic integers."""

    def __init__(self, names, known, V):
        self.V = V
        self.names = list(names)
        self.shape = {}
        self.slices = {}
        for n in self.names:
            self.shape[n] = [None, None, None]
            self.slices[n] = [[None, None], [None, None], [None, None]]
            for ax in range(3):
                for cell in CELLS:
                    if known(n, ax, cell):
                        self.set(n, ax, cell, V.int(f"{n}.{cell}[{ax}]"))

    def get(self, n, ax, cell):
        if cell == "s":
            return self.shape[n][ax]
        return self.slices[n][ax][0 if cell == "b0" else 1]

    def set(self, n, ax, cell, v):
        if cell == "s":
            self.shape[n][ax] = v
        else:
            self.slices[n][ax][0 if cell == "b0" else 1] = v

    def snapshot(self):
        return {(n, ax, cell): self.get(n, ax, cell) for n in self.names for ax in range(3) for cell in CELLS}

    def assume_consistent(self, n, ax):
        s, b0, b1 = (self.get(n, ax, c) for c in CELLS)
        if s is not None and b0 is not None and b1 is not None:
            self.V.assume(veq(s, b1 - b0))


def _objects(names):
    from fdtdx.materials import Material
    from fdtdx.objects.static_material.static import SimulationVolume, UniformMaterialObject

    om = {}
    for n in names:
        om[n] = SimulationVolume(name=n) if n == VOL else UniformMaterialObject(name=n, material=Material())
    return om


def _same(a, b):
    if a is b:
        return True
    if a is None or b is None:
        return False
    return veq(a, b)


def frame_and_setonce(c, pre, post, owned, label):
    """frame + set-once: only `owned` cells that were None may differ"""
    ok = True
    for key, old in pre.items():
        new = post[key]
        if key in owned and old is None:
            continue
        r = _same(old, new)
        if r is not True:
            ok = c.prove(f"{label}/frame+set-once{key}", r) and ok
    c.prove(f"{label}/frame+set-once", True)
    return ok


def in_range(v, n):
    """an edge index of an axis with n cells"""
    return vand(0 <= v, v <= n)


def changed_cells(pre, post):
    return [k for k in pre if pre[k] is None and post[k] is not None]


def run_rule(fn, **kw):
    """-> (raised exception or None, return value)"""
    eng = _engine_exceptions()
    try:
        return None, fn(**kw)
    except eng:
        raise
    except Exception as e:  # noqa: BLE001  (repository exceptions are defined behaviour of the rules)
        return e, None


# ---------------------------------------------------------------------------------------
# rule contract bodies.  Every factory returns body(c, inp).
# ---------------------------------------------------------------------------------------

NAMES = (VOL, "X", "Y")


class SymValues:
    """symbolic inputs, registered under their names for witness extraction"""

    def __init__(self, inp):
        self.inp = inp

    def int(self, name, lo=None):
        from vc.obl import sym_int

        return self.inp.scalar(name, sym_int(name, lo=lo))

    def real(self, name):
        from vc.obl import sym_real

        return self.inp.scalar(name, sym_real(name))

    def shape(self):
        return tuple(self.int(f"N{a}", lo=1) for a in range(3))

    def config(self, N):
        return P.make_config(N)

    def assume(self, cond):
        from vc.core import ctx

        ctx().assume(cond)

    def note(self, name, v):
        self.inp.note(name, v)


class PreconditionFailed(Exception):
    pass


class ReplayValues:
    """witness values; the REAL RectilinearGrid instead of the stand-in"""

    def __init__(self, witness):
        self.scalars = (witness or {}).get("scalars", {})

    def int(self, name, lo=None):
        return int(self.scalars[name])

    def real(self, name):
        return float(self.scalars[name])

    def shape(self):
        return tuple(self.int(f"N{a}") for a in range(3))

    def config(self, N):
        return P.real_config(N)

    def assume(self, cond):
        if not bool(cond):
            raise PreconditionFailed("witness violates a precondition")

    def note(self, name, v):
        pass


def provider(inp):
    return inp if isinstance(inp, ReplayValues) else SymValues(inp)


class ReplayCtx:
    """stands in for the session context when a contract body is re-run on concrete values"""

    def __init__(self):
        self.results = []

    def prove(self, name, goal, *a, **k):
        self.results.append((name, bool(goal)))
        return bool(goal)

    def cover(self, name):
        pass

    def bounded(self, *a, **k):
        pass


def replay_rule(key, obligation, witness, tier="thorough"):
    """re-run the contract body of a rule task on the witness values against the real code with the
    real RectilinearGrid"""
    bodies = rule_tasks(tier)
    if key not in bodies:
        bodies = rule_tasks("quick")
    if key not in bodies:
        return False, f"unknown rule task {key}"
    rc = ReplayCtx()
    try:
        bodies[key](rc, ReplayValues(witness))
    except PreconditionFailed as e:
        return False, str(e)
    except KeyError as e:
        return False, f"witness incomplete: {e}"
    failed = [n for n, ok in rc.results if not ok]
    hit = [n for n in failed if n == obligation or obligation.startswith(n) or n.startswith(obligation)]
    return bool(hit), f"rule contract {key} on witness {witness.get('scalars')}: failed clauses on the real code: {failed}"


def _known_from(pattern):
    """pattern: dict (name, axis, cell) -> bool for the enumerated cells; every other cell is None"""
    return lambda n, ax, cell: pattern.get((n, ax, cell), False)


def grid_rule(axis, side, target_known):
    def body(c, inp):
        import fdtdx.fdtd.initialization as INI
        from fdtdx.objects.object import GridCoordinateConstraint

        V = provider(inp)
        N = V.shape()
        cfg = V.config(N)
        d = 0 if side == "-" else 1
        tcell = ("X", axis, "b0" if d == 0 else "b1")
        st = State(NAMES, _known_from({tcell: target_known, ("Y", axis, "b0"): True, ("X", (axis + 1) % 3, "b1"): True}), V)
        k = V.int("coord")
        con = GridCoordinateConstraint(object="X", axes=(axis,), sides=(side,), coordinates=(k,))
        pre = st.snapshot()
        exc, ret = run_rule(INI._apply_grid_coordinate_constraint, constraint=con, object_map=_objects(NAMES), slice_dict=st.slices, config=cfg)
        post = st.snapshot()
        frame_and_setonce(c, pre, post, {tcell}, "grid")
        if exc is None:
            c.prove("grid/sound:target==coordinate", veq(post[tcell], k))
            c.prove("grid/flag", ret[0] == bool(changed_cells(pre, post)))
            c.prove("grid/returns_same_dict", ret[1] is st.slices)
        else:
            c.prove("grid/raises_only_on_conflict", target_known and vnot(veq(pre[tcell], k)))
            c.prove("grid/raise_leaves_state", not changed_cells(pre, post))

    return body


def real_rule(axis, side, target_known):
    def body(c, inp):
        import fdtdx.fdtd.initialization as INI
        from fdtdx.objects.object import RealCoordinateConstraint

        V = provider(inp)
        N = V.shape()
        cfg = V.config(N)
        d = 0 if side == "-" else 1
        tcell = ("X", axis, "b0" if d == 0 else "b1")
        st = State(NAMES, _known_from({tcell: target_known, ("Y", axis, "b1"): True}), V)
        x = V.real("coord")
        con = RealCoordinateConstraint(object="X", axes=(axis,), sides=(side,), coordinates=(x,))
        pre = st.snapshot()
        exc, ret = run_rule(INI._apply_real_coordinate_constraint, constraint=con, object_map=_objects(NAMES), slice_dict=st.slices, config=cfg)
        post = st.snapshot()
        frame_and_setonce(c, pre, post, {tcell}, "real")
        t = (x - P._edge(N[axis], Fraction(1), 0)) / Fraction(1)
        if exc is None:
            c.prove("real/sound:target_is_nearest_edge", is_nearest(post[tcell], t, 0, N[axis]) if post[tcell] is not None else False)
            c.prove("real/flag", ret[0] == bool(changed_cells(pre, post)))
        else:
            c.prove("real/raises_only_when_target_known", target_known)
            c.prove("real/raise_leaves_state", not changed_cells(pre, post))

    return body


def position_rule(axis, p_own, p_other, pattern_bits, with_grid_margin):
    """pattern_bits: (other_b0, other_b1, size, b0, b1) known flags"""

    def body(c, inp):
        import fdtdx.fdtd.initialization as INI
        from fdtdx.objects.object import PositionConstraint

        V = provider(inp)
        N = V.shape()
        cfg = V.config(N)
        ob0, ob1, ks, kb0, kb1 = pattern_bits
        pat = {("Y", axis, "b0"): ob0, ("Y", axis, "b1"): ob1, ("X", axis, "s"): ks, ("X", axis, "b0"): kb0, ("X", axis, "b1"): kb1, ("Y", axis, "s"): True, ("X", (axis + 1) % 3, "b0"): True}
        st = State(NAMES, _known_from(pat), V)
        st.assume_consistent("X", axis)
        m = V.real("margin")
        g = V.int("grid_margin") if with_grid_margin else 0
        con = PositionConstraint(object="X", other_object="Y", axes=(axis,), object_positions=(p_own,), other_object_positions=(p_other,), margins=(m,), grid_margins=(g,))
        pre = st.snapshot()
        exc, ret = run_rule(INI._apply_position_constraint, constraint=con, object_map=_objects(NAMES), config=cfg, shape_dict=st.shape, slice_dict=st.slices)
        post = st.snapshot()
        owned = {("X", axis, "b0"), ("X", axis, "b1")}
        frame_and_setonce(c, pre, post, owned, "pos")
        inputs_known = ob0 and ob1 and ks
        if not inputs_known:
            c.prove("pos/idle:no_raise", exc is None)
            c.prove("pos/idle:no_change", not changed_cells(pre, post))
            if exc is None:
                c.prove("pos/idle:flag_false", ret[0] is False)
            return
        if exc is not None:
            c.prove("pos/raise_is_defined_behaviour", isinstance(exc, Exception))
            return
        # soundness is needed (and claimed) for reference boxes inside the volume: on a successful
        # exit every object passed the bounds check and cells are set-once
        V.assume(vand(in_range(pre[("Y", axis, "b0")], N[axis]), in_range(pre[("Y", axis, "b1")], N[axis])))
        b0, b1 = post[("X", axis, "b0")], post[("X", axis, "b1")]
        if not c.prove("pos/sound:targets_known", b0 is not None and b1 is not None):
            return
        size = pre[("X", axis, "s")]
        c.prove("pos/sound:extent==size", veq(b1 - b0, size))
        clause = P.constraint_clauses(("pos", "X", "Y", (axis,), (p_own,), (p_other,), (m,), (g,)), {"X": st.slices["X"], "Y": st.slices["Y"]}, N)
        for lab, cond in clause:
            c.prove(f"pos/sound:{lab}", cond)
        c.prove("pos/flag", ret[0] == bool(changed_cells(pre, post)))

    return body


def size_rule(axis, other_axis, prop, pattern_bits, with_grid_offset):
    """pattern_bits: (other_s, other_b0, other_b1, s) known flags"""

    def body(c, inp):
        import fdtdx.fdtd.initialization as INI
        from fdtdx.objects.object import SizeConstraint

        V = provider(inp)
        N = V.shape()
        cfg = V.config(N)
        os_, ob0, ob1, ks = pattern_bits
        pat = {("Y", other_axis, "s"): os_, ("Y", other_axis, "b0"): ob0, ("Y", other_axis, "b1"): ob1, ("X", axis, "s"): ks, ("X", axis, "b0"): True}
        st = State(NAMES, _known_from(pat), V)
        off = V.real("offset")
        g = V.int("grid_offset") if with_grid_offset else 0
        pr = Fraction(prop)
        con = SizeConstraint(object="X", other_object="Y", axes=(axis,), other_axes=(other_axis,), proportions=(pr,), offsets=(off,), grid_offsets=(g,))
        pre = st.snapshot()
        exc, ret = run_rule(INI._apply_size_constraint, constraint=con, object_map=_objects(NAMES), config=cfg, shape_dict=st.shape, slice_dict=st.slices)
        post = st.snapshot()
        owned = {("X", axis, "s")}
        frame_and_setonce(c, pre, post, owned, "size")
        inputs_known = os_ and ob0 and ob1
        if not inputs_known:
            c.prove("size/idle:no_raise", exc is None)
            c.prove("size/idle:no_change", not changed_cells(pre, post))
            if exc is None:
                c.prove("size/idle:flag_false", ret[0] is False)
            return
        if exc is not None:
            c.prove("size/raise_is_defined_behaviour", isinstance(exc, Exception))
            c.prove("size/raise_leaves_state", not changed_cells(pre, post))
            return
        V.assume(vand(in_range(pre[("Y", other_axis, "b0")], N[other_axis]), in_range(pre[("Y", other_axis, "b1")], N[other_axis])))
        s = post[("X", axis, "s")]
        if not c.prove("size/sound:target_known", s is not None):
            return
        length = (pre[("Y", other_axis, "b1")] - pre[("Y", other_axis, "b0")]) * pr + off + g
        c.prove("size/sound:length_nonnegative", length >= 0)
        c.prove("size/sound:size_is_nearest_count", is_nearest(s, length, 0, N[axis]))
        c.prove("size/flag", ret[0] == bool(changed_cells(pre, post)))

    return body


def extension_rule(axis, direction, other, other_position, pattern_bits, with_grid_offset):
    """pattern_bits: (other_b0, other_b1, target) known flags (other given) or (volume_cell, target)"""

    def body(c, inp):
        import fdtdx.fdtd.initialization as INI
        from fdtdx.objects.object import SizeExtensionConstraint

        V = provider(inp)
        N = V.shape()
        cfg = V.config(N)
        d = 0 if direction == "-" else 1
        tcell = ("X", axis, "b0" if d == 0 else "b1")
        if other is not None:
            ob0, ob1, kt = pattern_bits
            pat = {("Y", axis, "b0"): ob0, ("Y", axis, "b1"): ob1, tcell: kt, (VOL, axis, "b0"): True, (VOL, axis, "b1"): True}
        else:
            kv, kt = pattern_bits
            pat = {(VOL, axis, "b0" if d == 0 else "b1"): kv, tcell: kt, ("Y", axis, "b0"): True}
        st = State(NAMES, _known_from(pat), V)
        off = V.real("offset") if other is not None else 0
        g = (V.int("grid_offset") if with_grid_offset else 0) if other is not None else 0
        con = SizeExtensionConstraint(object="X", other_object=other, axis=axis, direction=direction, other_position=other_position, offset=off, grid_offset=g)
        pre = st.snapshot()
        exc, ret = run_rule(INI._apply_size_extension_constraint, constraint=con, object_map=_objects(NAMES), config=cfg, slice_dict=st.slices, volume_name=VOL)
        post = st.snapshot()
        frame_and_setonce(c, pre, post, {tcell}, "ext")
        if other is not None:
            inputs_known = pattern_bits[0] and pattern_bits[1]
            if not inputs_known:
                c.prove("ext/idle:no_raise", exc is None)
                c.prove("ext/idle:no_change", not changed_cells(pre, post))
                if exc is None:
                    c.prove("ext/idle:flag_false", ret[0] is False)
                return
        if exc is not None:
            # a conflict with a known target, an unknown volume bound, or (numpy IndexError) a reference box
            # whose edge indices do not exist on this axis
            oob = False
            if other is not None:
                oob = vnot(vand(*[vand(-(N[axis] + 1) <= pre[("Y", axis, b)], pre[("Y", axis, b)] <= N[axis]) for b in ("b0", "b1")]))
            c.prove("ext/raise_only_if_target_or_volume_or_reference_out_of_range", vor(bool(pattern_bits[-1]) or (other is None and not pattern_bits[0]), oob))
            c.prove("ext/raise_leaves_state", not changed_cells(pre, post))
            return
        if other is not None:
            V.assume(vand(in_range(pre[("Y", axis, "b0")], N[axis]), in_range(pre[("Y", axis, "b1")], N[axis])))
            clause = P.constraint_clauses(("ext", "X", "Y", axis, direction, other_position, off, g), {"X": st.slices["X"], "Y": st.slices["Y"]}, N)
            for lab, cond in clause:
                c.prove(f"ext/sound:{lab}", cond)
        else:
            c.prove("ext/sound:target==volume_bound", veq(post[tcell], pre[(VOL, axis, "b0" if d == 0 else "b1")]))
        c.prove("ext/flag", ret[0] == bool(changed_cells(pre, post)))

    return body


def slices_from_shapes_rule(axis, pattern_bits):
    """pattern_bits: (s, b0, b1) of X on `axis`"""

    def body(c, inp):
        import fdtdx.fdtd.initialization as INI

        V = provider(inp)
        ks, kb0, kb1 = pattern_bits
        pat = {("X", axis, "s"): ks, ("X", axis, "b0"): kb0, ("X", axis, "b1"): kb1, ("Y", axis, "s"): True, ("Y", (axis + 1) % 3, "b0"): True, (VOL, axis, "b1"): True}
        st = State(NAMES, _known_from(pat), V)
        errors = {n: None for n in NAMES}
        pre = st.snapshot()
        exc, ret = run_rule(INI._update_grid_slices_from_shapes, object_map=_objects(NAMES), shape_dict=st.shape, slice_dict=st.slices, errors=errors)
        post = st.snapshot()
        c.prove("slices_from_shapes/no_raise", exc is None)
        if exc is not None:
            return
        owned = {("X", axis, "b0"), ("X", axis, "b1")}
        frame_and_setonce(c, pre, post, owned, "slices_from_shapes")
        s, b0, b1 = (pre[("X", axis, k)] for k in CELLS)
        q0, q1 = post[("X", axis, "b0")], post[("X", axis, "b1")]
        if ks and kb0 and kb1:
            flagged = errors["X"] is not None
            c.prove("slices_from_shapes/validates:error_iff_inconsistent", veq(s, b1 - b0) if not flagged else vnot(veq(s, b1 - b0)))
        elif ks and kb0:
            c.prove("slices_from_shapes/sets_upper=b0+s", q1 is not None and veq(q1, b0 + s))
        elif ks and kb1:
            c.prove("slices_from_shapes/sets_lower=b1-s", q0 is not None and veq(q0, b1 - s))
        else:
            c.prove("slices_from_shapes/idle", not changed_cells(pre, post) and errors["X"] is None)
        c.prove("slices_from_shapes/other_objects_unflagged", errors["Y"] is None and errors[VOL] is None)
        c.prove("slices_from_shapes/flag", ret[0] == bool(changed_cells(pre, post)))

    return body


def shapes_from_slices_rule(axis, pattern_bits):
    def body(c, inp):
        import fdtdx.fdtd.initialization as INI

        V = provider(inp)
        ks, kb0, kb1 = pattern_bits
        pat = {("X", axis, "s"): ks, ("X", axis, "b0"): kb0, ("X", axis, "b1"): kb1, ("Y", axis, "b0"): True, (VOL, axis, "s"): True}
        st = State(NAMES, _known_from(pat), V)
        errors = {n: None for n in NAMES}
        pre = st.snapshot()
        exc, ret = run_rule(INI._update_grid_shapes_from_slices, object_map=_objects(NAMES), shape_dict=st.shape, slice_dict=st.slices, errors=errors)
        post = st.snapshot()
        c.prove("shapes_from_slices/no_raise", exc is None)
        if exc is not None:
            return
        frame_and_setonce(c, pre, post, {("X", axis, "s")}, "shapes_from_slices")
        s, b0, b1 = (pre[("X", axis, k)] for k in CELLS)
        q = post[("X", axis, "s")]
        if kb0 and kb1 and ks:
            flagged = errors["X"] is not None
            c.prove("shapes_from_slices/validates:error_iff_inconsistent", veq(s, b1 - b0) if not flagged else vnot(veq(s, b1 - b0)))
        elif kb0 and kb1:
            c.prove("shapes_from_slices/sets_size=b1-b0", q is not None and veq(q, b1 - b0))
        else:
            c.prove("shapes_from_slices/idle", not changed_cells(pre, post) and errors["X"] is None)
        c.prove("shapes_from_slices/flag", ret[0] == bool(changed_cells(pre, post)))

    return body


EXT_CONTEXTS = ("none", "ext+", "ext-", "pos_pending", "pos_ready", "size_only")


def extend_rule(axis, pattern_bits, context):
    """_extend_to_inf_if_possible on one axis: X cells enumerated, the other axes fully known."""

    def body(c, inp):
        import fdtdx.fdtd.initialization as INI
        from fdtdx.objects.object import PositionConstraint, SizeConstraint, SizeExtensionConstraint

        V = provider(inp)
        ks, kb0, kb1 = pattern_bits
        pat = {}
        for n in NAMES:
            for ax in range(3):
                for cell in CELLS:
                    pat[(n, ax, cell)] = ax != axis
        pat[("X", axis, "s")], pat[("X", axis, "b0")], pat[("X", axis, "b1")] = ks, kb0, kb1
        for cell in CELLS:
            pat[(VOL, axis, cell)] = True
        y_known = context != "pos_pending"
        for cell in CELLS:
            pat[("Y", axis, cell)] = y_known
        st = State(NAMES, _known_from(pat), V)
        cons = []
        if context == "ext+":
            cons = [SizeExtensionConstraint(object="X", other_object="Y", axis=axis, direction="+", other_position=-1, offset=0, grid_offset=0)]
        elif context == "ext-":
            cons = [SizeExtensionConstraint(object="X", other_object=None, axis=axis, direction="-", other_position=1, offset=0, grid_offset=0)]
        elif context in ("pos_pending", "pos_ready"):
            cons = [PositionConstraint(object="X", other_object="Y", axes=(axis,), object_positions=(0,), other_object_positions=(0,), margins=(0,), grid_margins=(0,))]
        elif context == "size_only":
            cons = [SizeConstraint(object="X", other_object="Y", axes=(axis,), other_axes=(axis,), proportions=(1,), offsets=(0,), grid_offsets=(0,))]
        pre = st.snapshot()
        exc, ret = run_rule(INI._extend_to_inf_if_possible, constraints=cons, object_map=_objects(NAMES), slice_dict=st.slices, shape_dict=st.shape, volume_name=VOL)
        post = st.snapshot()
        c.prove("extend/no_raise", exc is None)
        if exc is not None:
            return
        owned = {(n, axis, b) for n in NAMES for b in ("b0", "b1")}
        frame_and_setonce(c, pre, post, owned, "extend")
        for key in changed_cells(pre, post):
            n, ax, cell = key
            want = 0 if cell == "b0" else pre[(VOL, axis, "s")]
            c.prove(f"extend/value[{n},{cell}]", veq(post[key], want))
        ch = {k for k in changed_cells(pre, post) if k[0] == "X"}
        # which of X's bounds are extended (DESIGN: only at quiescence, a function of the state)
        want_lower = (not kb0) and not (kb1 and ks) and context not in ("ext-", "pos_pending")
        want_upper = (not kb1) and not ks and context not in ("ext+", "pos_pending")
        if kb0 and kb1:
            want_lower = want_upper = False
        c.prove("extend/lower_extended_iff_free", (("X", axis, "b0") in ch) == want_lower)
        c.prove("extend/upper_extended_iff_free", (("X", axis, "b1") in ch) == want_upper)
        c.prove("extend/flag", ret[0] == bool(changed_cells(pre, post)))

    return body


def rule_tasks(tier):
    """-> dict key -> body"""
    out = {}
    bits = lambda n: list(itertools.product((False, True), repeat=n))  # noqa: E731
    lab = lambda bs: "".join("k" if b else "n" for b in bs)  # noqa: E731
    for axis in (0, 2) if tier == "quick" else (0, 1, 2):
        for side in "-+":
            for tk in (False, True):
                out[f"rule/grid/a{axis}{side}/{lab((tk,))}"] = grid_rule(axis, side, tk)
                out[f"rule/real/a{axis}{side}/{lab((tk,))}"] = real_rule(axis, side, tk)
    pos_anchor = [(-1, -1), (0, 0), (1, -1), (-1, 1), (1, 1), (0, 1)] if tier == "quick" else list(itertools.product((-1, 0, 1, 0.5), repeat=2))
    for k, (po, pt) in enumerate(pos_anchor):
        for bs in bits(5):
            axis = k % 3
            gm = (sum(bs) + k) % 2 == 0
            out[f"rule/pos/a{axis}/own{po}other{pt}/{lab(bs)}{'/gm' if gm else ''}"] = position_rule(axis, po, pt, bs, gm)
    for k, (prop, oa_shift) in enumerate([(1, 0), (Fraction(1, 2), 0), (2, 1), (1, 2), (Fraction(1, 2), 1), (Fraction(1, 2), 2)] if tier == "quick" else [(p, s) for p in (1, Fraction(1, 2), 2, Fraction(3, 4)) for s in (0, 1, 2)]):
        for bs in bits(4):
            axis = k % 3
            out[f"rule/size/a{axis}from{(axis + oa_shift) % 3}/prop{prop}/{lab(bs)}"] = size_rule(axis, (axis + oa_shift) % 3, prop, bs, (sum(bs) + k) % 2 == 1)
    for k, (direction, opos) in enumerate([("+", -1), ("-", 1), ("+", 0), ("-", -1), ("+", 1)]):
        for bs in bits(3):
            axis = k % 3
            out[f"rule/ext/a{axis}{direction}/to_Y@{opos}/{lab(bs)}"] = extension_rule(axis, direction, "Y", opos, bs, (sum(bs) + k) % 2 == 0)
    for axis, direction in ((0, "+"), (1, "-"), (2, "+"), (0, "-")):
        for bs in bits(2):
            out[f"rule/ext/a{axis}{direction}/to_boundary/{lab(bs)}"] = extension_rule(axis, direction, None, 1 if direction == "-" else -1, bs, False)
    for axis in (0, 1, 2):
        for bs in bits(3):
            out[f"rule/slices_from_shapes/a{axis}/{lab(bs)}"] = slices_from_shapes_rule(axis, bs)
            out[f"rule/shapes_from_slices/a{axis}/{lab(bs)}"] = shapes_from_slices_rule(axis, bs)
    for k, ctxname in enumerate(EXT_CONTEXTS):
        for bs in bits(3):
            out[f"rule/extend_to_inf/a{k % 3}/{ctxname}/{lab(bs)}"] = extend_rule(k % 3, bs, ctxname)
    return out


# ---------------------------------------------------------------------------------------
# catalogue of small constraint systems (structure fixed, numbers symbolic)
# ---------------------------------------------------------------------------------------


def I(name, lo=None):  # noqa: E743
    return ("$int", name, lo)


def R(name):
    return ("$real", name)


def _cube(x):
    return (x, x, x)


A3 = (0, 1, 2)


def systems(tier="quick"):
    """name -> system.  'cubic' systems use the same symbols on all three axes (decisions on axis 1
    and 2 repeat those of axis 0, so the run costs as much as a one-axis system while exercising the
    three-axis code paths); axis-specific systems leave the other axes unconstrained."""
    S = {}
    vol = (VOL, _cube(I("N", 1)))
    X = ("X", _cube(I("sx", 1)))
    Y = ("Y", _cube(I("sy", 1)))
    Z = ("Z", _cube(I("sz", 1)))
    Xn, Yn = ("X", (None, None, None)), ("Y", (None, None, None))
    z3_ = _cube(0)

    def pos(o, other, po, pt, m=0, g=0, axes=A3):
        k = len(axes)
        return ("pos", o, other, tuple(axes), (po,) * k, (pt,) * k, (m,) * k, (g,) * k)

    def size(o, other, prop=1, off=0, g=0, axes=A3, oaxes=None):
        k = len(axes)
        return ("size", o, other, tuple(axes), tuple(oaxes or axes), (prop,) * k, (off,) * k, (g,) * k)

    def grid(o, side, coord, axes=A3):
        k = len(axes)
        return ("grid", o, tuple(axes), (side,) * k, (coord,) * k)

    def real(o, side, coord, axes=A3):
        k = len(axes)
        return ("real", o, tuple(axes), (side,) * k, (coord,) * k)

    # 1. corner pin + centred chain (the structure of DESIGN section 5)
    S["pin_centre_chain"] = {"objects": [vol, X, Y], "constraints": [pos("X", VOL, -1, -1), pos("X", "Y", 0, 0), pos("Y", VOL, 0, 0)]}
    # 2. margins: X left of Y with a real margin, Y pinned by grid coordinates, X also pinned
    S["face_to_face_margin"] = {"objects": [vol, X, Y], "constraints": [grid("Y", "-", I("ya")), pos("X", "Y", 1, -1, R("m")), grid("X", "-", I("xa"))]}
    # 3. size relation + position, size declared only for Y
    S["same_size_then_place"] = {"objects": [vol, Xn, Y], "constraints": [size("X", "Y", 1, R("off")), pos("X", "Y", -1, 1), pos("Y", VOL, 0, 0, R("m"))]}
    # 4. extension to an object and to the boundary (one axis, other axes unconstrained)
    S["extend_between"] = {
        "objects": [vol, Xn, ("Y", (I("sy", 1), None, None))],
        "constraints": [("ext", "X", None, 0, "-", 1, 0, 0), ("ext", "X", "Y", 0, "+", -1, R("off"), 0), ("grid", "Y", (0,), ("-",), (I("ya"),))],
    }
    # 5. real coordinates on both sides + half-size child centred on it
    S["real_box_half_child"] = {
        "objects": [vol, Xn, Yn],
        "constraints": [("real", "X", (0,), ("-",), (R("xa"),)), ("real", "X", (0,), ("+",), (R("xb"),)), ("size", "Y", "X", (0,), (0,), (Fraction(1, 2),), (0,), (0,)), ("pos", "Y", "X", (0,), (0,), (0,), (0,), (0,))],
    }
    # 6. over-determined box: both sides by grid coordinates and a declared size
    S["overdetermined_box"] = {"objects": [vol, X], "constraints": [grid("X", "-", I("xa")), grid("X", "+", I("xb"))]}
    # 7. three-object chain listed against the dependency order
    S["chain3"] = {"objects": [vol, X, Y, Z], "constraints": [pos("Z", "Y", -1, 1), pos("Y", "X", -1, 1, 0, I("g")), pos("X", VOL, -1, -1), pos("Z", VOL, 1, 1)]}
    # 8. size from another axis of the parent, grid margin, extension on the far side
    S["cross_axis_size"] = {
        "objects": [vol, ("X", (I("sx", 1), I("sx1", 1), None)), ("Y", (None, None, None))],
        "constraints": [("size", "Y", "X", (0,), (1,), (1,), (0,), (I("go"),)), ("pos", "Y", "X", (0,), (-1,), (1,), (0,), (0,)), ("grid", "X", (0, 1), ("-", "-"), (I("xa"), I("xa1")))],
    }
    # 9. two position constraints on the same object from two parents (conflict unless aligned)
    S["two_parents"] = {"objects": [vol, X, Y, Z], "constraints": [pos("X", "Y", 0, 0), pos("X", "Z", -1, -1), grid("Y", "-", I("ya")), grid("Z", "-", I("za"))]}
    # 10. size constraint against a declared size, child placed by extension
    S["declared_vs_relative_size"] = {"objects": [vol, X, Y], "constraints": [size("X", "Y", 1, 0, I("go")), pos("X", VOL, 0, 0), pos("Y", "X", 0, 0)]}
    # 11. NON-CUBIC volume (independent extents), cross-axis size: Y's y-size is half of X's x-extent
    ncvol = (VOL, (I("N0", 1), I("N1", 1), I("N2", 1)))
    S["noncubic_cross_axis_size"] = {
        "objects": [ncvol, Xn, Yn],
        "constraints": [("grid", "X", (0, 0), ("-", "+"), (I("xa"), I("xb"))), ("size", "Y", "X", (1,), (0,), (Fraction(1, 2),), (R("off"),), (0,)), ("pos", "Y", VOL, (1,), (0,), (0,), (0,), (0,))],
    }
    # 12. non-cubic volume, size taken from the z-extent, position on y and extension on z of the same pair
    S["noncubic_mixed_axes"] = {
        "objects": [ncvol, ("X", (None, I("sx1", 1), None)), ("Y", (None, None, None))],
        "constraints": [
            ("grid", "X", (1, 2, 2), ("-", "-", "+"), (I("xa1"), I("xa2"), I("xb2"))),
            ("size", "Y", "X", (1,), (2,), (1,), (0,), (I("go"),)),
            ("pos", "Y", "X", (1,), (-1,), (1,), (R("m"),), (0,)),
            ("ext", "Y", "X", 2, "+", -1, 0, 0),
        ],
        # pruning (saves paths): the reference box given by grid coordinates is a proper box inside the
        # volume; coordinates outside are rejected by the bounds check (covered by the other systems)
        "assume": [("le", 0, "xa1"), ("le", "xa1", "N1"), ("le", 0, "xa2"), ("lt", "xa2", "xb2"), ("le", "xb2", "N2")],
    }
    # 13. non-cubic volume, same cross-axis size with the larger extent on the reference axis and a
    #     declared size to validate against (over-determined)
    S["noncubic_cross_axis_declared"] = {
        "objects": [ncvol, ("X", (I("sx0", 1), None, None)), ("Y", (None, None, I("sy2", 1)))],
        "constraints": [("pos", "X", VOL, (0,), (1,), (1,), (0,), (0,)), ("size", "Y", "X", (2,), (0,), (1,), (0,), (0,)), ("pos", "Y", VOL, (2,), (-1,), (-1,), (0,), (0,))],
    }
    if tier != "quick":
        S["chain3_margins"] = {"objects": [vol, X, Y, Z], "constraints": [pos("Z", "Y", 0, 0, R("m2")), pos("Y", "X", 1, -1, R("m1")), pos("X", VOL, 0, 0), size("Z", "X", 1, 0, 0)]}
        S["extend_both_sides"] = {
            "objects": [vol, Xn, ("Y", (I("sy", 1), None, None)), ("Z", (I("sz", 1), None, None))],
            "constraints": [("ext", "X", "Y", 0, "-", 1, 0, I("g")), ("ext", "X", "Z", 0, "+", -1, 0, 0), ("grid", "Y", (0,), ("-",), (I("ya"),)), ("pos", "Z", VOL, (0,), (1,), (1,), (0,), (0,))],
        }
    return S


def permutations_for(system, tier, seed, cap):
    import random

    n = len(system["constraints"])
    perms = list(itertools.permutations(range(n)))
    if len(perms) <= cap:
        return perms
    rnd = random.Random(seed * 7919 + n)
    rest = perms[1:]
    rnd.shuffle(rest)
    keep = [perms[0], tuple(reversed(range(n)))] + rest[: cap - 2]
    out = []
    for p in keep:
        if p not in out:
            out.append(p)
    return out


# ---------------------------------------------------------------------------------------
# end-to-end runs of the real resolve_object_constraints
# ---------------------------------------------------------------------------------------


def _run_resolver(objs, cons, cfg):
    """real resolve_object_constraints; engine exceptions swallowed by the driver's blanket
    `except Exception` are re-raised (they must abort/undecide the path, not become placement errors)."""
    import fdtdx.fdtd.initialization as INI

    eng = _engine_exceptions()
    names = ["_apply_grid_coordinate_constraint", "_apply_real_coordinate_constraint", "_apply_position_constraint", "_apply_size_constraint", "_apply_size_extension_constraint"]
    saved = {n: INI.__dict__[n] for n in names}
    stash = []

    def wrap(fn):
        def w(*a, **k):
            try:
                return fn(*a, **k)
            except eng as e:
                stash.append(e)
                raise

        return w

    try:
        for n in names:
            INI.__dict__[n] = wrap(saved[n])
        slices, errors = INI.resolve_object_constraints(objs, cons, cfg)
    finally:
        for n in names:
            INI.__dict__[n] = saved[n]
    if stash:
        raise stash[0]
    bad = {k: v for k, v in errors.items() if v}
    return slices, bad


def _prepare(system, inp, assume_fit=True):
    from vc.core import ctx

    V = P.Values(inp=inp)
    objs, cons, info = P.build(system, V)
    N = info["shapes"][VOL]
    for op, a, b in system.get("assume", ()):
        va = V.cache[a] if isinstance(a, str) else a
        vb = V.cache[b] if isinstance(b, str) else b
        ctx().assume(va <= vb if op == "le" else va < vb)
    if assume_fit:
        # declared sizes fit into the volume (larger ones are rejected by the real code with a
        # ValueError -> placement error; covered by the bounded runs, pruned here to save paths)
        for name, shp in info["shapes"].items():
            for ax in range(3):
                if name != VOL and shp[ax] is not None:
                    ctx().assume(shp[ax] <= N[ax])
    return objs, cons, info, N


def e2e_body(system, order, obj_order=None):
    """C26: on every successful exit all clauses of the property hold for the returned slices"""

    def body(c, inp):
        objs, cons, info, N = _prepare(system, inp)
        inp.note("order", list(order))
        inp.note("obj_order", list(obj_order) if obj_order else None)
        cons_o = [cons[i] for i in order]
        objs_o = [objs[i] for i in obj_order] if obj_order else objs
        cfg = P.make_config(N)
        c.cover("pre")
        slices, bad = _run_resolver(objs_o, cons_o, cfg)
        if bad:
            return
        for lab, cond in P.placement_post(info, slices, N):
            c.prove(f"success=>{lab}", cond)

    return body


def rel_body(system, order_a, order_b, obj_a=None, obj_b=None):
    """C27: two orders on the same symbolic inputs agree on success and on every slice"""

    def body(c, inp):
        objs, cons, info, N = _prepare(system, inp)
        inp.note("order_a", list(order_a))
        inp.note("order_b", list(order_b))
        inp.note("obj_a", list(obj_a) if obj_a else None)
        inp.note("obj_b", list(obj_b) if obj_b else None)
        cfg = P.make_config(N)
        c.cover("pre")
        sa, bad_a = _run_resolver([objs[i] for i in obj_a] if obj_a else objs, [cons[i] for i in order_a], cfg)
        sb, bad_b = _run_resolver([objs[i] for i in obj_b] if obj_b else objs, [cons[i] for i in order_b], cfg)
        c.prove("same_outcome(success/failure)", (not bad_a) == (not bad_b))
        if bad_a or bad_b:
            return
        for name in info["shapes"]:
            for ax in range(3):
                for d in (0, 1):
                    c.prove(f"same_slice[{name},axis{ax},{'lower' if d == 0 else 'upper'}]", _same(sa[name][ax][d], sb[name][ax][d]))

    return body


# ---------------------------------------------------------------------------------------
# concrete instances (replay, bounded runs)
# ---------------------------------------------------------------------------------------


def symbols_of(system):
    out = {}

    def visit(x):
        if P.is_symbol(x):
            out[x[1]] = x
        elif isinstance(x, (tuple, list)):
            for y in x:
                visit(y)

    for _, shp in system["objects"]:
        visit(shp)
    for cd in system["constraints"]:
        visit(cd)
    return out


def witness_values(system, witness):
    sc = (witness or {}).get("scalars", {})
    vals = {}
    for name, spec in symbols_of(system).items():
        v = sc.get(name)
        if v is None or isinstance(v, str):
            return None
        vals[name] = int(v) if spec[0] == "$int" else Fraction(v).limit_denominator(1 << 16)
    return vals


def random_values(system, rnd, nmax=12):
    vals = {}
    n = rnd.choice([4, 6, 8, 9, nmax])
    for name, spec in symbols_of(system).items():
        if name.startswith("N"):
            vals[name] = n if name == "N" else rnd.randint(2, nmax)
        elif spec[0] == "$int":
            lo = spec[2] if len(spec) > 2 and spec[2] is not None else -2
            vals[name] = rnd.randint(lo, max(lo, n // 2 + 1))
        else:
            vals[name] = Fraction(rnd.randint(-2 * n, 2 * n), 4)
    return vals


def random_system(rnd, max_objects=3, max_constraints=5):
    """a small concrete constraint system (all numbers concrete; halves/quarters are exact floats)"""
    n_obj = rnd.randint(1, max_objects)
    names = ["X", "Y", "Z", "W"][:n_obj]
    nvol = tuple(rnd.choice([4, 6, 7, 8, 10]) for _ in range(3))
    objects = [(VOL, nvol)]
    for nm in names:
        objects.append((nm, tuple(rnd.choice([None, None, 1, 2, 3, 4]) for _ in range(3))))
    cons = []
    n_con = rnd.randint(1, max_constraints)
    everyone = [VOL] + names
    for _ in range(n_con):
        o = rnd.choice(names)
        other = rnd.choice([x for x in everyone if x != o])
        axes = tuple(sorted(rnd.sample(range(3), rnd.randint(1, 3))))
        k = len(axes)
        kind = rnd.choice(["pos", "pos", "size", "ext", "grid", "real"])
        if kind == "pos":
            cons.append(("pos", o, other, axes, tuple(rnd.choice([-1, 0, 1]) for _ in axes), tuple(rnd.choice([-1, 0, 1]) for _ in axes), tuple(rnd.choice([0, 0, 1, -1.5, 2.25]) for _ in axes), tuple(rnd.choice([0, 0, 1, -1]) for _ in axes)))
        elif kind == "size":
            cons.append(("size", o, other, axes, tuple(rnd.choice(range(3)) for _ in axes) if rnd.random() < 0.3 else axes, tuple(rnd.choice([1, 1, 0.5, 2]) for _ in axes), tuple(rnd.choice([0, 0, 1, -1.25]) for _ in axes), tuple(rnd.choice([0, 0, 1, -1]) for _ in axes)))
        elif kind == "ext":
            tgt = rnd.choice([None, other])
            cons.append(("ext", o, tgt, axes[0], rnd.choice("+-"), rnd.choice([-1, 1, 0]), 0 if tgt is None else rnd.choice([0, 0, 1, -0.75]), 0 if tgt is None else rnd.choice([0, 0, 1])))
        elif kind == "grid":
            cons.append(("grid", o, axes, tuple(rnd.choice("+-") for _ in axes), tuple(rnd.randint(0, 8) for _ in axes)))
        else:
            cons.append(("real", o, axes, tuple(rnd.choice("+-") for _ in axes), tuple(Fraction(rnd.randint(-16, 16), 4) for _ in axes)))
        del k
    return {"objects": objects, "constraints": cons}


def planted_system(rnd, max_objects=3):
    """a concrete system built around a planted solution: every object/axis gets a random slice and
    constraints that this slice satisfies exactly (random mix of grid/real coordinates, anchored
    positions with margins, relative sizes, extensions); then 0-2 EXTRA constraints over-determine
    some object (relative to any other object, also ones defined later), half of them off by one.
    The constraint list is shuffled."""
    N = tuple(rnd.choice([6, 8, 9, 10, 12]) for _ in range(3))
    names = ["X", "Y", "Z"][: rnd.randint(1, max_objects)]
    truth = {VOL: [(0, N[a]) for a in range(3)]}
    decl = {}
    cons = []
    nonfree = []
    H = Fraction(1, 2)

    def edge(a, i):
        return Fraction(i) - Fraction(N[a], 2)

    def anchor(a, sl, p):
        return edge(a, sl[0]) + (Fraction(p) + 1) / 2 * (sl[1] - sl[0])

    def pos_constraint(o, r, a, sl, wrong=0):
        po, pt = rnd.choice([-1, 0, 1]), rnd.choice([-1, 0, 1])
        total = anchor(a, sl, po) - anchor(a, truth[r][a], pt)
        g = rnd.choice([0, 0, 1, -1, 2])
        return ("pos", o, r, (a,), (po,), (pt,), (total - g,), (g + wrong,))

    for idx, o in enumerate(names):
        refs = [VOL] + names[:idx]
        truth[o] = []
        d = [None, None, None]
        for a in range(3):
            n = N[a]
            mode = rnd.choice(["free", "free", "grid2", "grid1", "pos", "pos", "ext", "real2", "size_pos"])
            lo = rnd.randint(0, n - 1)
            hi = rnd.randint(lo + 1, n)
            r = rnd.choice(refs)
            if mode == "free":
                truth[o].append((0, n))
                continue
            if mode == "ext" and rnd.random() < 0.5:
                if rnd.random() < 0.5:
                    hi = n
                else:
                    lo = 0
            sl = (lo, hi)
            truth[o].append(sl)
            nonfree.append((o, a))
            s = hi - lo
            if mode == "grid2":
                if rnd.random() < 0.5:
                    cons.append(("grid", o, (a, a), ("-", "+"), (lo, hi)))
                else:
                    cons.append(("grid", o, (a,), ("-",), (lo,)))
                    cons.append(("grid", o, (a,), ("+",), (hi,)))
            elif mode == "grid1":
                d[a] = s
                cons.append(("grid", o, (a,), ("-",), (lo,)) if rnd.random() < 0.5 else ("grid", o, (a,), ("+",), (hi,)))
            elif mode == "pos":
                d[a] = s
                cons.append(pos_constraint(o, r, a, sl))
            elif mode == "size_pos":
                prop = rnd.choice([1, 1, H, 2])
                ra = a if rnd.random() < 0.6 else rnd.choice([x for x in range(3) if x != a])  # cross-axis reference
                rs = truth[r][ra][1] - truth[r][ra][0]
                off = Fraction(s) - rs * Fraction(prop)
                g = rnd.choice([0, 0, 1, -1])
                jitter = rnd.choice([0, 0, Fraction(1, 4), Fraction(-1, 4)])
                if off - g + jitter + rs * Fraction(prop) + g >= 0:
                    off = off + jitter
                cons.append(("size", o, r, (a,), (ra,), (prop,), (off - g,), (g,)))
                cons.append(pos_constraint(o, r, a, sl))
            elif mode == "real2":
                j0, j1 = rnd.choice([0, Fraction(1, 4), Fraction(-1, 4)]), rnd.choice([0, Fraction(1, 4), Fraction(-1, 4)])
                cons.append(("real", o, (a, a), ("-", "+"), (edge(a, lo) + j0, edge(a, hi) + j1)))
            elif mode == "ext":
                # one side by extension, the other by a grid coordinate
                side = "+" if (hi == n and lo != 0) or (hi != n and lo != 0 and rnd.random() < 0.5) or (hi == n and lo == 0 and rnd.random() < 0.5) else "-"
                if lo == 0 and hi != n:
                    side = "-"
                bound_ok = (side == "+" and hi == n) or (side == "-" and lo == 0)
                if bound_ok and rnd.random() < 0.6:
                    cons.append(("ext", o, None, a, side, -1 if side == "+" else 1, 0, 0))
                else:
                    q = rnd.choice([-1, 0, 1])
                    tgt = edge(a, hi if side == "+" else lo)
                    g = rnd.choice([0, 0, 1, -1])
                    cons.append(("ext", o, r, a, side, q, tgt - anchor(a, truth[r][a], q) - g, g))
                cons.append(("grid", o, (a,), ("-",), (lo,)) if side == "+" else ("grid", o, (a,), ("+",), (hi,)))
        decl[o] = tuple(d)
    n_extra = rnd.choice([0, 1, 1, 2]) if nonfree else 0
    for _ in range(n_extra):
        o, a = rnd.choice(nonfree)
        wrong = rnd.choice([0, 0, 1, -1])
        others = [x for x in [VOL] + names if x != o]
        kind = rnd.choice(["pos", "pos", "grid", "size"])
        sl = truth[o][a]
        if kind == "pos":
            cons.append(pos_constraint(o, rnd.choice(others), a, sl, wrong))
        elif kind == "grid":
            side = rnd.choice("-+")
            cons.append(("grid", o, (a,), (side,), ((sl[0] if side == "-" else sl[1]) + wrong,)))
        else:
            r = rnd.choice(others)
            ra = a if rnd.random() < 0.5 else rnd.choice([x for x in range(3) if x != a])
            rs = truth[r][ra][1] - truth[r][ra][0]
            cons.append(("size", o, r, (a,), (ra,), (1,), (Fraction(sl[1] - sl[0] - rs),), (wrong,)))
    rnd.shuffle(cons)
    objects = [(VOL, N)] + [(o, decl[o]) for o in names]
    return {"objects": objects, "constraints": cons, "truth": {k: tuple(v) for k, v in truth.items()}}


def sample_orders(k, cap, rnd):
    """up to `cap` distinct orders of range(k): all of them when k! <= cap, else identity, reverse and
    random shuffles (never enumerates k!)"""
    import math

    if math.factorial(k) <= cap:
        return [tuple(p) for p in itertools.permutations(range(k))]
    out = [tuple(range(k)), tuple(reversed(range(k)))]
    seen = set(out)
    while len(out) < cap:
        p = list(range(k))
        rnd.shuffle(p)
        p = tuple(p)
        if p not in seen:
            seen.add(p)
            out.append(p)
    return out


# ---------------------------------------------------------------------------------------
# state-pattern sweep: the "arbitrary intermediate state" lemma in reachable form
# ---------------------------------------------------------------------------------------
#
# Any partial state of two objects (which of size / lower / upper is known, with arbitrary values)
# is produced from the real initial state by declared sizes and leading GridCoordinateConstraints
# with symbolic coordinates.  One MAIN constraint between the two objects is added, listed first
# or last.  All 64 known/unknown patterns are enumerated; the numbers are symbolic.

SWEEP_MAIN = {
    "pos": ("pos", "X", "Y", A3, (0, 0, 0), (1, 1, 1), (R("m"),) * 3, (0, 0, 0)),
    "size": ("size", "X", "Y", A3, A3, (1, 1, 1), (R("off"),) * 3, (0, 0, 0)),
    "ext": ("ext", "X", "Y", 0, "+", -1, R("off"), 0),
    # cross-axis size on a NON-CUBIC volume: X's y-size from Y's x-extent
    "xsize": ("size", "X", "Y", (1,), (0,), (Fraction(1, 2),), (R("off"),), (0,)),
}
SWEEP_AXES = {"pos": (None, None), "size": (None, None), "ext": (0, 0), "xsize": (1, 0)}  # (axis of X, axis of Y); None = all three (cubic)


def sweep_system(kind, bits):
    """bits: (X.s, X.b0, X.b1, Y.s, Y.b0, Y.b1) preset flags"""
    xs, xb0, xb1, ys, yb0, yb1 = bits
    ax_x, ax_y = SWEEP_AXES[kind]

    def shp(flag, name, ax):
        if not flag:
            return (None, None, None)
        if ax is None:
            return _cube(I(name, 1))
        return tuple(I(name, 1) if a == ax else None for a in range(3))

    cons = []
    for flag, obj, side, sym, ax in ((xb0, "X", "-", "xa", ax_x), (xb1, "X", "+", "xb", ax_x), (yb0, "Y", "-", "ya", ax_y), (yb1, "Y", "+", "yb", ax_y)):
        if flag:
            axes = A3 if ax is None else (ax,)
            cons.append(("grid", obj, axes, (side,) * len(axes), (I(sym),) * len(axes)))
    vol = _cube(I("N", 1)) if kind != "xsize" else (I("N0", 1), I("N1", 1), I("N2", 1))
    out = {"objects": [(VOL, vol), ("X", shp(xs, "sx", ax_x)), ("Y", shp(ys, "sy", ax_y))], "constraints": cons, "main": SWEEP_MAIN[kind]}
    if kind == "xsize":
        # pruning (saves paths): preset grid coordinates are edge indices of their own axis; coordinates
        # outside the volume end in a bounds error and are covered by the cubic kinds
        out["assume"] = [a for flag, a in ((xb0, ("le", 0, "xa")), (xb0, ("le", "xa", "N1")), (xb1, ("le", 0, "xb")), (xb1, ("le", "xb", "N1")), (yb0, ("le", 0, "ya")), (yb0, ("le", "ya", "N0")), (yb1, ("le", 0, "yb")), (yb1, ("le", "yb", "N0"))) if flag]
    return out


def sweep_tasks(tier):
    """-> list of (key, system, order_first, order_last)"""
    out = []
    for kind in SWEEP_MAIN:
        for bits in itertools.product((False, True), repeat=6):
            base = sweep_system(kind, bits)
            n = len(base["constraints"])
            system = {"objects": base["objects"], "constraints": base["constraints"] + [base["main"]], "assume": base.get("assume", ())}
            first = (n,) + tuple(range(n))
            last = tuple(range(n)) + (n,)
            lab = "".join("k" if b else "n" for b in bits)
            out.append((f"{kind}/{lab}", system, first, last))
    return out
